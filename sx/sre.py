"""`re` as seen by the lifted modules: a small backtracking matcher over symbolic strings, driven by
CPython's own parse of the pattern (the pattern text comes from the lifted source)."""
import re as _re
import builtins
try:
    import re._parser as _sre_parse
    import re._constants as K
except ImportError:                      # pragma: no cover
    import sre_parse as _sre_parse
    import sre_constants as K
import z3
from . import term as T
from .sstr import SStr, SChar, chars_of, norm
from .term import OutOfModel

_isinstance = builtins.isinstance
I, IGNORECASE, M, MULTILINE, S, DOTALL, X, VERBOSE = _re.I, _re.IGNORECASE, _re.M, _re.MULTILINE, _re.S, _re.DOTALL, _re.X, _re.VERBOSE
error = _re.error
escape = _re.escape


_ICASE = [False]


def _char_test(items, negate=False):
    def test(c):
        r = False
        for op, av in items:
            if op is K.LITERAL and ord(c) == av:
                r = True
            elif op is K.RANGE and av[0] <= ord(c) <= av[1]:
                r = True
            elif op is K.CATEGORY:
                if av is K.CATEGORY_DIGIT and c.isdigit():
                    r = True
                elif av is K.CATEGORY_SPACE and c.isspace():
                    r = True
                elif av is K.CATEGORY_WORD and (c.isalnum() or c == '_'):
                    r = True
            elif op is K.NEGATE:
                pass
        return r != negate
    return test


def char_in(ch, items):
    """does character ch match the class described by items?  (forks when undecided)"""
    negate = bool(items) and items[0][0] is K.NEGATE
    test = _char_test(items, negate)
    if _ICASE[0]:
        # re.IGNORECASE (ASCII letters): a character matches when either of its cases does
        t0 = _char_test(items, False)
        test = (lambda c: (t0(c) or t0(c.swapcase())) != negate)
    if _isinstance(ch, str):
        return test(ch)
    yes = [a for a in ch.alpha if test(a)]
    if len(yes) == len(ch.alpha):
        return True
    if not yes:
        return False
    return bool(T.mk_bool(z3.Or(*[ch.bv == ord(a) for a in yes])))


class Match:
    def __init__(self, chars, groups, end):
        self.chars, self.groups, self._end = chars, groups, end

    def group(self, *idx):
        if not idx:
            idx = (0,)
        r = []
        for i in idx:
            if i == 0:
                r.append(norm(self.chars[:self._end]))
            else:
                g = self.groups.get(i)
                r.append(None if g is None else norm(self.chars[g[0]:g[1]]))
        return r[0] if len(r) == 1 else tuple(r)

    def groups_(self):
        return self.groups

    def end(self, i=0):
        return self._end if i == 0 else self.groups[i][1]

    def start(self, i=0):
        return 0 if i == 0 else self.groups[i][0]

    @property
    def lastindex(self):
        ks = [k for k, v in self.groups.items() if v is not None]
        return max(ks) if ks else None

    def __bool__(self):
        return True


def _m(seq, i, chars, pos, groups, cont):
    """match seq[i:] at pos; cont(pos, groups) -> result | None.  CPython priority (greedy, leftmost alternative)."""
    if i == len(seq):
        return cont(pos, groups)
    op, av = seq[i]

    def nxt(p, g):
        return _m(seq, i + 1, chars, p, g, cont)
    if op is K.LITERAL:
        if pos < len(chars) and char_in(chars[pos], [(op, av)]):
            return nxt(pos + 1, groups)
        return None
    if op is K.NOT_LITERAL:
        if pos < len(chars) and not char_in(chars[pos], [(K.LITERAL, av)]):
            return nxt(pos + 1, groups)
        return None
    if op is K.ANY:
        if pos < len(chars) and not char_in(chars[pos], [(K.LITERAL, 10)]):
            return nxt(pos + 1, groups)
        return None
    if op is K.IN:
        if pos < len(chars) and char_in(chars[pos], av):
            return nxt(pos + 1, groups)
        return None
    if op is K.SUBPATTERN:
        gid, _, _, sub = av

        def after(p, g):
            g2 = dict(g)
            if gid is not None:
                g2[gid] = (pos, p)
            return nxt(p, g2)
        return _m(list(sub), 0, chars, pos, groups, after)
    if op is K.BRANCH:
        for alt in av[1]:
            r = _m(list(alt), 0, chars, pos, groups, nxt)
            if r is not None:
                return r
        return None
    if op is K.MAX_REPEAT:
        lo, hi, sub = av
        sub = list(sub)

        def rep(count, p, g):
            if hi is K.MAXREPEAT or count < hi:
                def more(p2, g2):
                    if p2 == p:
                        return None
                    return rep(count + 1, p2, g2)
                r = _m(sub, 0, chars, p, g, more)
                if r is not None:
                    return r
            if count >= lo:
                return nxt(p, g)
            return None
        return rep(0, pos, groups)
    if op is K.AT:
        if av is K.AT_BEGINNING and pos == 0:
            return nxt(pos, groups)
        if av is K.AT_END and pos == len(chars):
            return nxt(pos, groups)
        return None
    raise OutOfModel('regex op %s' % (op,))


class Pattern:
    def __init__(self, p, flags=0):
        self.pattern, self.flags = p, flags
        self.real = _re.compile(p, flags)
        self.seq = list(_sre_parse.parse(p, flags))
        self.groups = self.real.groups

    def match(self, s, *a):
        if _isinstance(s, str):
            return self.real.match(s, *a)
        chars = chars_of(s)
        _ICASE[0] = bool(self.flags & _re.IGNORECASE)
        try:
            return _m(self.seq, 0, chars, 0, {}, lambda p, g: Match(chars, g, p))
        finally:
            _ICASE[0] = False

    def fullmatch(self, s):
        if _isinstance(s, str):
            return self.real.fullmatch(s)
        chars = chars_of(s)
        return _m(self.seq, 0, chars, 0, {}, lambda p, g: Match(chars, g, p) if p == len(chars) else None)

    def search(self, s, *a):
        if _isinstance(s, str):
            return self.real.search(s, *a)
        raise OutOfModel('re.search on symbolic string')

    def __getattr__(self, name):
        return getattr(self.real, name)


def compile(p, flags=0):
    return Pattern(p, flags)


def match(p, s, flags=0):
    return Pattern(p, flags).match(s)


def fullmatch(p, s, flags=0):
    return Pattern(p, flags).fullmatch(s)


def __getattr__(name):
    return getattr(_re, name)
