"""Neutral snapshots of observables, identical in shape for the lifted run (terms) and the real run (NumPy)."""
import builtins
from fractions import Fraction
import numpy as _np
from . import term as T
from . import symnp
from . import sstr as S

_isinstance = builtins.isinstance


class Arr:
    """snapshot of an ndarray / NumPy scalar: dtype name, shape, flat cells, scalar flag"""
    __slots__ = ('dtype', 'shape', 'cells', 'scalar')

    def __init__(self, dtype, shape, cells, scalar=False):
        self.dtype, self.shape, self.cells, self.scalar = dtype, tuple(shape), list(cells), scalar

    def _sx_symbolic(self):
        return builtins.any(T.is_sym(c) for c in self.cells)

    def _sx_eval(self, model):
        return Arr(self.dtype, self.shape, [T.eval_under(model, c) for c in self.cells], self.scalar)

    def __eq__(self, o):
        return _isinstance(o, Arr) and (self.dtype, self.shape, self.scalar) == (o.dtype, o.shape, o.scalar) and \
            len(self.cells) == len(o.cells) and builtins.all(_same(a, b) for a, b in zip(self.cells, o.cells))

    def __ne__(self, o):
        return not self.__eq__(o)
    __hash__ = None

    def __repr__(self):
        return 'Arr(%s%s, %r, %r)' % (self.dtype, '/scalar' if self.scalar else '', self.shape, self.cells)

    def to_json(self):
        return {'dtype': self.dtype, 'shape': list(self.shape), 'scalar': self.scalar, 'cells': [jsonable(c) for c in self.cells]}


def _same(a, b):
    if _isinstance(a, T.Poison) or _isinstance(b, T.Poison):
        return True                  # value outside the model: not compared
    if _isinstance(a, float) and _isinstance(b, float):
        return a == b or (a != a and b != b)
    if _isinstance(a, bool) != _isinstance(b, bool):
        return False
    if type(a) in (int, float, Fraction) and type(b) in (int, float, Fraction):
        if (type(a) is int) != (type(b) is int):
            return False             # int vs float kind matters
        return a == b
    return a == b


def snap(v):
    """snapshot any observable value"""
    if _isinstance(v, symnp.ndarray):
        return Arr(str(v.dtype) if v.dtype.kind != 'U' else 'str', v.shape, v._cells(), v._scalar)
    if _isinstance(v, _np.ndarray):
        if v.dtype.kind == 'O':
            cells = [v[ix] for ix in _np.ndindex(v.shape)]
        else:
            cells = v.reshape(-1).tolist()
        return Arr(str(v.dtype) if v.dtype.kind != 'U' else 'str', v.shape, cells, False)
    if _isinstance(v, _np.generic):
        return Arr(str(v.dtype) if v.dtype.kind != 'U' else 'str', (), [v.item()], True)
    if _isinstance(v, (list, tuple)):
        return type(v)(snap(x) for x in v)
    if _isinstance(v, dict):
        return {k: snap(x) for k, x in v.items()}
    return v


def cells(v):
    """flat list of cell values of a snapshot / scalar"""
    if _isinstance(v, Arr):
        return v.cells
    return [v]


def same(a, b):
    """structural equality of two concrete snapshots"""
    if _isinstance(a, Arr) or _isinstance(b, Arr):
        return a == b
    if _isinstance(a, dict) and _isinstance(b, dict):
        return a.keys() == b.keys() and builtins.all(same(a[k], b[k]) for k in a)
    if _isinstance(a, (list, tuple)) and _isinstance(b, (list, tuple)):
        return type(a) is type(b) and len(a) == len(b) and builtins.all(same(x, y) for x, y in zip(a, b))
    return _same(a, b)


def diff(a, b, path=''):
    """human-readable list of differences"""
    out = []
    if _isinstance(a, dict) and _isinstance(b, dict):
        for k in sorted(set(a) | set(b), key=str):
            if k not in a or k not in b:
                out.append('%s.%s: only on one side' % (path, k))
            else:
                out += diff(a[k], b[k], '%s.%s' % (path, k))
        return out
    if not same(a, b):
        out.append('%s: lifted=%r real=%r' % (path, a, b))
    return out


def jsonable(v):
    if _isinstance(v, Arr):
        return v.to_json()
    if _isinstance(v, (bool, int, str)) or v is None:
        return v if not (_isinstance(v, int) and not _isinstance(v, bool) and abs(v) >= 1 << 53) else {'int': str(v)}
    if _isinstance(v, float):
        if v != v or v in (float('inf'), float('-inf')):
            return {'float': repr(v)}
        return {'float': v.hex()}
    if _isinstance(v, Fraction):
        return {'frac': [str(v.numerator), str(v.denominator)]}
    if _isinstance(v, complex):
        return {'complex': [jsonable(v.real), jsonable(v.imag)]}
    if _isinstance(v, (list, tuple)):
        return [jsonable(x) for x in v]
    if _isinstance(v, dict):
        return {str(k): jsonable(x) for k, x in v.items()}
    if _isinstance(v, _np.generic):
        return jsonable(v.item())
    if _isinstance(v, _np.ndarray):
        return jsonable(snap(v))
    if _isinstance(v, type):
        return v.__name__
    return repr(v)


def unjson(v):
    if _isinstance(v, dict):
        if set(v) == {'int'}:
            return int(v['int'])
        if set(v) == {'float'}:
            s = v['float']
            return float.fromhex(s) if 'x' in s else float(s)
        if set(v) == {'frac'}:
            return Fraction(int(v['frac'][0]), int(v['frac'][1]))
        if set(v) == {'complex'}:
            return complex(unjson(v['complex'][0]), unjson(v['complex'][1]))
        if set(v) == {'dtype', 'shape', 'scalar', 'cells'}:
            return Arr(v['dtype'], v['shape'], [unjson(c) for c in v['cells']], v['scalar'])
        return {k: unjson(x) for k, x in v.items()}
    if _isinstance(v, list):
        return [unjson(x) for x in v]
    return v
