"""Load /repo/fxpmath/*.py unmodified into a private package whose builtins and `numpy` are the SX overlay.

Also loads the *real* package (real builtins, real NumPy) from the same directory under a private
name, for replaying counterexamples and validating path witnesses.
"""
import ast
import builtins
import hashlib
import importlib.util
import os
import string
import sys
import types

from . import term as T
from . import sstr as S
from . import symnp
from . import sre
from .term import SInt, SFloat, SBool, SComplex, Poison, OutOfModel

_isinstance, _type, _issubclass = builtins.isinstance, builtins.type, builtins.issubclass
_np = symnp._np

# ------------------------------------------------------------------------------------------------ type shims


class _ShimMeta(type):
    _real = None
    _sym = ()

    def __eq__(cls, o):
        return o is cls._real or o is cls

    def __ne__(cls, o):
        return not (o is cls._real or o is cls)

    def __hash__(cls):
        return hash(cls._real)

    def __instancecheck__(cls, o):
        return sx_isinstance(o, cls._real)

    def __subclasscheck__(cls, c):
        return c is cls or _issubclass(c, cls._real)

    def __repr__(cls):
        return repr(cls._real)

    def __getattr__(cls, name):
        return getattr(cls._real, name)


class IntShim(metaclass=_ShimMeta):
    _real = int

    def __new__(cls, x=0, base=None):
        if base is not None:
            if _isinstance(x, symnp.ndarray) and x.size == 1:
                x = x._one()                  # (a NumPy str_ scalar is a str)
            if _isinstance(x, S.SStr):
                return S.parse_int(x, base)
            return int(x, base)
        return to_int(x)


class FloatShim(metaclass=_ShimMeta):
    _real = float

    def __new__(cls, x=0.0):
        return to_float(x)


class StrShim(metaclass=_ShimMeta):
    _real = str

    def __new__(cls, x='', *a):
        if _isinstance(x, S.SStr):
            return x
        if _isinstance(x, SInt):
            return S.to_decimal(x)
        if _isinstance(x, symnp.ndarray):
            if x._concrete():
                return str(x._real())
            if x.size == 1:
                return StrShim(x._one())
            raise OutOfModel('str() of symbolic array')
        if _isinstance(x, (SFloat, SBool, SComplex, Poison)):
            raise OutOfModel('str() of symbolic %s' % _type(x).__name__)
        return str(x, *a)


class ComplexShim(metaclass=_ShimMeta):
    _real = complex

    def __new__(cls, *a):
        if _b_any(_isinstance(x, (SInt, SFloat, SComplex, SBool)) for x in a):
            if len(a) == 1:
                return T.clift(a[0])
            return T.mkc(to_float(a[0]), to_float(a[1]))
        a = [x._real() if _isinstance(x, symnp.ndarray) else x for x in a]
        return complex(*a)


_b_any = builtins.any
symnp.INT_SHIM, symnp.FLOAT_SHIM, symnp.STR_SHIM, symnp.COMPLEX_SHIM = IntShim, FloatShim, StrShim, ComplexShim


def to_int(x):
    if _isinstance(x, SInt):
        return x
    if _isinstance(x, SBool):
        return T.bool_to_int(x)
    if _isinstance(x, SFloat):
        return T.float_to_int(x)
    if _isinstance(x, Poison):
        return x
    if _isinstance(x, S.SStr):
        return S.parse_int(x, 10)
    if _isinstance(x, symnp.ndarray):
        if x.size != 1:
            raise TypeError('only length-1 arrays can be converted to Python scalars')
        v = x._one()
        if x.dtype.kind == 'c':
            raise TypeError("int() argument must be a string, a bytes-like object or a real number, not 'complex'")
        return to_int(v)
    if _isinstance(x, SComplex):
        raise TypeError("int() argument must be a string, a bytes-like object or a real number, not 'complex'")
    return int(x)


def to_float(x):
    if _isinstance(x, SFloat):
        return x
    if _isinstance(x, (SInt, SBool)):
        return T.int_to_float(x)
    if _isinstance(x, Poison):
        return x
    if _isinstance(x, S.SStr):
        return S.parse_float(x)
    if _isinstance(x, symnp.ndarray):
        if x.size != 1:
            raise TypeError('only length-1 arrays can be converted to Python scalars')
        return to_float(x._one())
    return float(x)


_SHIM_TO_REAL = {IntShim: int, FloatShim: float, StrShim: str, ComplexShim: complex}


def sx_isinstance(o, cls):
    if _isinstance(cls, tuple):
        for c in cls:
            if sx_isinstance(o, c):
                return True
        return False
    cls = _SHIM_TO_REAL.get(cls, cls)
    if cls is object:
        return True
    if _isinstance(o, symnp.ndarray):
        if cls is symnp.ndarray:
            return not o._scalar
        if not o._scalar:
            return False
        if _isinstance(cls, type) and _issubclass(cls, _np.generic):
            return _issubclass(o.dtype.type, cls)
        if cls is float:
            return o.dtype == _np.dtype('float64')
        if cls is complex:
            return o.dtype == _np.dtype('complex128')
        if cls is str:
            return o.dtype.kind == 'U'
        return False
    if _isinstance(o, SBool):
        return cls in (bool, int)
    if _isinstance(o, SInt):
        return cls is int
    if _isinstance(o, (SFloat, Poison)):
        return cls is float
    if _isinstance(o, SComplex):
        return cls is complex
    if _isinstance(o, S.SStr):
        return cls is str
    return _isinstance(o, cls)


def sx_type(*a):
    if len(a) != 1:
        return _type(*a)
    o = a[0]
    if _isinstance(o, SInt):
        return int
    if _isinstance(o, SBool):
        return bool
    if _isinstance(o, (SFloat, Poison)):
        return float
    if _isinstance(o, SComplex):
        return complex
    if _isinstance(o, S.SStr):
        return str
    if _isinstance(o, symnp.ndarray) and o._scalar:
        return o.dtype.type
    return _type(o)


def _kind(v):
    if _isinstance(v, (float, SFloat, Poison)):
        return 'f'
    if _isinstance(v, (int, SInt, SBool)):
        return 'i'
    if _isinstance(v, symnp.ndarray):
        return 'a' + v.dtype.kind
    return 'o'


def _pick(cmp_true_takes_b, a, b):
    """python's min/max step: result is b when `cmp` holds, else a (kept lazily as an ite when kinds agree)"""
    c = cmp_true_takes_b
    if _isinstance(c, symnp.ndarray):
        c = c._one()
    if _isinstance(c, bool) or not _isinstance(c, SBool):
        return b if c else a
    ka, kb = _kind(a), _kind(b)
    if ka == kb == 'i':
        return T.iite(c, b, a)
    if ka == kb == 'f':
        return T.fite(c, b, a)
    return b if builtins.bool(c) else a          # different kinds: the kind of the result is observable -> fork


def sx_min(*a, **kw):
    if kw:
        return builtins.min(*a, **kw)
    if len(a) == 1:
        a = tuple(a[0])
    if not _b_any(T.is_sym(x) for x in a):
        return builtins.min(*a) if len(a) > 1 else a[0]
    r = a[0]
    for b in a[1:]:
        if _kind(b) == _kind(r) == 'i':
            r = T.imin(r, b)              # range-aware: min(max_code, x) is x itself when x.hi <= max_code
        elif _kind(b) == _kind(r) == 'f':
            r = T.fmin(r, b)
        else:
            r = _pick(b < r, r, b)
    return r


def sx_max(*a, **kw):
    if kw:
        return builtins.max(*a, **kw)
    if len(a) == 1:
        a = tuple(a[0])
    if not _b_any(T.is_sym(x) for x in a):
        return builtins.max(*a) if len(a) > 1 else a[0]
    r = a[0]
    for b in a[1:]:
        if _kind(b) == _kind(r) == 'i':
            r = T.imax(r, b)
        elif _kind(b) == _kind(r) == 'f':
            r = T.fmax(r, b)
        else:
            r = _pick(b > r, r, b)
    return r


def sx_bin(x):
    if _isinstance(x, symnp.ndarray):
        x = x._one()
    if _isinstance(x, SInt):
        if x < 0:
            return S.norm(['-', '0', 'b'] + S.chars_of(S.to_base_var(T.ineg(x), 1)))
        x = T.refine_or(x, 0, x.hi)
        if not _isinstance(x, SInt):
            return bin(x)
        return S.norm(['0', 'b'] + S.chars_of(S.to_base_var(x, 1)))
    return bin(x)


def sx_hex(x):
    if _isinstance(x, symnp.ndarray):
        x = x._one()
    if _isinstance(x, SInt):
        if x < 0:
            return S.norm(['-', '0', 'x'] + S.chars_of(S.to_base_var(T.ineg(x), 4, upper=False)))
        x = T.refine_or(x, 0, x.hi)
        if not _isinstance(x, SInt):
            return hex(x)
        return S.norm(['0', 'x'] + S.chars_of(S.to_base_var(x, 4, upper=False)))
    return hex(x)


def sx_set(x=()):
    if _isinstance(x, S.SStr):
        return S.SSet(list(x.chars))
    return set(x)


def sx_len(x):
    return len(x)


def sx_abs(x):
    return abs(x)


def sx_round(x, n=None):
    if _isinstance(x, SFloat):
        return x.__round__(n)
    return round(x) if n is None else round(x, n)


def sx_divmod(a, b):
    if _isinstance(a, SInt) or _isinstance(b, SInt):
        return T.idivmod(a, b)
    return divmod(a, b)


def sx_pow(a, b, m=None):
    return pow(a, b) if m is None else pow(a, b, m)


def sx_format(lit, *args, **kw):
    """`<literal>.format(...)` with possibly symbolic arguments"""
    vals = list(args) + list(kw.values())
    if not _b_any(T.is_sym(v) or (_isinstance(v, symnp.ndarray)) for v in vals):
        return lit.format(*args, **kw)
    args = [a._one() if _isinstance(a, symnp.ndarray) and a.size == 1 else a for a in args]
    kw = {k: (a._one() if _isinstance(a, symnp.ndarray) and a.size == 1 else a) for k, a in kw.items()}
    if not _b_any(T.is_sym(v) for v in list(args) + list(kw.values())):
        return lit.format(*args, **kw)
    out = []
    auto = [0]

    def getval(field):
        if field == '':
            v = args[auto[0]]
            auto[0] += 1
            return v
        if field.isdigit():
            return args[int(field)]
        return kw[field]
    for text, field, spec, conv in string.Formatter().parse(lit):
        out += list(text)
        if field is None:
            continue
        v = getval(field)
        if spec and '{' in spec:
            spec = sx_format(spec, *args, **kw)
            if not _isinstance(spec, str):
                raise OutOfModel('symbolic format spec')
        if not T.is_sym(v):
            out += list(format(v, spec or ''))
            continue
        if _isinstance(v, S.SStr):
            if spec:
                raise OutOfModel('format spec on symbolic string')
            out += v.chars
        elif _isinstance(v, (SInt, SBool)):
            if _isinstance(v, SBool):
                raise OutOfModel('format of symbolic bool')
            if not spec or spec == 'd':
                out += S.chars_of(S.to_decimal(v))
            elif spec[-1] in 'Xxb' and (spec[:-1] == '' or (spec[0] == '0' and spec[1:-1].isdigit())):
                width = int(spec[1:-1]) if len(spec) > 1 else 1
                bits = 1 if spec[-1] == 'b' else 4
                if v.lo < 0:
                    raise OutOfModel('format of possibly negative symbolic int')
                out += S.chars_of(S.to_base_var(v, bits, upper=spec[-1] == 'X', min_digits=builtins.max(width, 1)))
            else:
                raise OutOfModel('format spec %r on symbolic int' % spec)
        else:
            raise OutOfModel('format of symbolic %s' % _type(v).__name__)
    return S.norm(out)


class _FormatRewriter(ast.NodeTransformer):
    """`'literal'.format(...)` -> `__sx_format__('literal', ...)`; nothing else is touched"""

    def __init__(self):
        self.sites = 0

    def visit_Call(self, node):
        self.generic_visit(node)
        f = node.func
        if _isinstance(f, ast.Attribute) and f.attr == 'format' and _isinstance(f.value, ast.Constant) and _isinstance(f.value.value, str):
            self.sites += 1
            return ast.copy_location(ast.Call(func=ast.Name('__sx_format__', ast.Load()), args=[f.value] + node.args, keywords=node.keywords), node)
        return node


class _IfConvRewriter(ast.NodeTransformer):
    """if-conversion of the one statement shape `if <test>: <name> = <name-or-constant>` (no else) into
    `<name> = __sx_select__(<test>, lambda: <value>, lambda: <name>)`.  For a concrete test the helper evaluates exactly the thunk
    Python would have executed; for a symbolic test over two numbers of the same kind it returns the if-then-else term instead of
    forking (the value expression is a bare name or a literal: no side effect, no exception other than NameError, which falls back
    to the fork).  This is what keeps the fraction search of set_best_sizes at one path per trailing-zero count instead of one per
    fractional bit pattern."""

    def __init__(self):
        self.sites = 0
        self.scope = ['module']

    def _scoped(kind):
        def visit(self, node):
            self.scope.append(kind)
            self.generic_visit(node)
            self.scope.pop()
            return node
        return visit
    visit_FunctionDef = _scoped('function')
    visit_ClassDef = _scoped('class')
    visit_Lambda = _scoped('other')

    def visit_If(self, node):
        self.generic_visit(node)
        if node.orelse or len(node.body) != 1 or self.scope[-1] != 'function':
            return node
        st = node.body[0]
        if not (_isinstance(st, ast.Assign) and len(st.targets) == 1 and _isinstance(st.targets[0], ast.Name)
                and _isinstance(st.value, (ast.Name, ast.Constant))):
            return node
        name = st.targets[0].id
        self.sites += 1
        thunk = lambda body: ast.Lambda(args=ast.arguments(posonlyargs=[], args=[], kwonlyargs=[], kw_defaults=[], defaults=[]), body=body)
        call = ast.Call(func=ast.Name('__sx_select__', ast.Load()),
                        args=[node.test, thunk(st.value), thunk(ast.Name(name, ast.Load()))], keywords=[])
        return ast.copy_location(ast.Assign(targets=[ast.Name(name, ast.Store())], value=call), node)


def sx_select(c, then_value, else_value):
    if _isinstance(c, symnp.ndarray) and T.is_sym(c):
        try:
            c = c._one()
        except Exception:
            pass
    if not _isinstance(c, T.SBool):
        return then_value() if c else else_value()
    if T.EX is not None:
        d = T.EX.decided(c)            # one-sided under the path condition: no term is built, no decision is recorded
        if d is not None:
            return then_value() if d else else_value()
    try:
        a, b = then_value(), else_value()
    except NameError:
        return then_value() if builtins.bool(c) else else_value()
    ka, kb = _kind(a), _kind(b)
    if ka == kb == 'i' and not _isinstance(a, T.SBool) and not _isinstance(b, T.SBool):
        return T.iite(c, a, b)
    if ka == kb == 'f':
        return T.fite(c, a, b)
    if (ka == kb and ka in ('af', 'ai', 'au') and a.shape == b.shape == () and a.dtype == b.dtype
            and builtins.bool(a._scalar) == builtins.bool(b._scalar)):
        # two NumPy scalars (or 0-d arrays) of one dtype: merge the single cell
        return a._like([symnp._ite(c, a._one(), b._one())], scalar=a._scalar)
    return a if builtins.bool(c) else b          # not two plain numbers of one kind: fork, as the if statement does


# ------------------------------------------------------------------------------------------------ loading

_counter = [0]
FILES = ('__init__.py', 'utils.py', 'objects.py', 'functions.py', 'callbacks.py')


class Lifted:
    """namespace handed to harnesses: the same attribute names exist on the real side (see load_real)"""

    def __init__(self, pkg, np, symbolic, repo, hashes, name):
        self.pkg, self.np, self.symbolic, self.repo, self.hashes, self.name = pkg, np, symbolic, repo, hashes, name
        self.Fxp, self.Config = pkg.Fxp, pkg.Config
        self.utils, self.functions, self.objects = pkg.utils, pkg.functions, pkg.objects
        self.callbacks = sys.modules.get(name + '.callbacks')

    def unload(self):
        for k in [k for k in sys.modules if k == self.name or k.startswith(self.name + '.')]:
            del sys.modules[k]


def file_hashes(repo):
    h = {}
    for f in FILES:
        p = os.path.join(repo, 'fxpmath', f)
        h['fxpmath/' + f] = hashlib.sha256(open(p, 'rb').read()).hexdigest()
    return h


def load_lifted(repo='/repo', mutate=None):
    """mutate: {filename: [(old_text, new_text), ...]} applied to the source text in memory (canaries only)"""
    _counter[0] += 1
    base = 'sxfxp_%d' % _counter[0]
    bi = dict(builtins.__dict__)
    real_import = builtins.__import__
    pkgdir = os.path.join(repo, 'fxpmath')
    rewriter_sites = [0]
    ifconv_sites = [0]

    def _load_mod(full):
        rel = full.split('.')[1:]
        path = os.path.join(pkgdir, *(rel or ['__init__'])) + '.py'
        m = types.ModuleType(full)
        m.__file__ = path
        m.__package__ = base
        if not rel:
            m.__path__ = [pkgdir]
        m.__dict__['__builtins__'] = bi
        sys.modules[full] = m
        src = open(path).read()
        fname = os.path.basename(path)
        for old, new in (mutate or {}).get(fname, []):
            if old not in src:
                raise RuntimeError('canary mutation anchor not found in %s: %r' % (fname, old))
            src = src.replace(old, new, 1)
        tree = ast.parse(src, path)
        rw = _FormatRewriter()
        tree = rw.visit(tree)
        rewriter_sites[0] += rw.sites
        if os.environ.get('SX_NO_IFCONV') != '1':
            rc = _IfConvRewriter()
            tree = rc.visit(tree)
            ifconv_sites[0] += rc.sites
        tree = ast.fix_missing_locations(tree)
        exec(compile(tree, path, 'exec'), m.__dict__)
        return m

    def imp(name, globals=None, locals=None, fromlist=(), level=0):
        if name == 'numpy' or name.startswith('numpy.'):
            return symnp
        if name == 're':
            return sre
        if level > 0 or name == 'fxpmath' or name.startswith('fxpmath.'):
            sub = name.replace('fxpmath.', '').replace('fxpmath', '')
            full = base if not sub else base + '.' + sub
            if full not in sys.modules:
                _load_mod(full)
            m = sys.modules[full]
            if fromlist and not sub:
                for f in fromlist:
                    if not hasattr(m, f) and os.path.exists(os.path.join(pkgdir, f + '.py')):
                        s = base + '.' + f
                        if s not in sys.modules:
                            _load_mod(s)
                        setattr(m, f, sys.modules[s])
            return m
        return real_import(name, globals, locals, fromlist, level)

    bi.update(__import__=imp, int=IntShim, float=FloatShim, str=StrShim, complex=ComplexShim,
              isinstance=sx_isinstance, type=sx_type, min=sx_min, max=sx_max, bin=sx_bin, hex=sx_hex, set=sx_set,
              round=sx_round, divmod=sx_divmod, print=lambda *a, **k: None, __sx_format__=sx_format, __sx_select__=sx_select)
    T.set_explorer(T.EX)
    pkg = _load_mod(base)
    if base + '.callbacks' not in sys.modules:
        _load_mod(base + '.callbacks')
    L = Lifted(pkg, symnp, True, repo, file_hashes(repo), base)
    L.format_sites = rewriter_sites[0]
    L.ifconv_sites = ifconv_sites[0]
    return L


def load_real(repo='/repo'):
    _counter[0] += 1
    name = 'realfxp_%d' % _counter[0]
    pkgdir = os.path.join(repo, 'fxpmath')
    spec = importlib.util.spec_from_file_location(name, os.path.join(pkgdir, '__init__.py'), submodule_search_locations=[pkgdir])
    m = importlib.util.module_from_spec(spec)
    sys.modules[name] = m
    spec.loader.exec_module(m)
    import importlib as _il
    _il.import_module(name + '.callbacks')
    return Lifted(m, _np, False, repo, file_hashes(repo), name)
