"""SX term library: solver-backed stand-ins for Python ints, bools and float64 values.

* SInt   -- unbounded Python integer, encoded as a z3 bit-vector exactly as wide as its sound static
            range [lo, hi] needs (two's complement).  Every operation first computes the result range
            by interval arithmetic and then works at a width in which nothing can overflow, so a term
            always denotes the mathematical integer.
* SFloat -- a float64 that is known to be the dyadic rational num * 2**exp (num: int | SInt, exp: int).
            Only operations IEEE-754 performs exactly are modelled exactly; operations that may round
            are either proven exact (static range / path condition), rounded explicitly to 53 bits,
            or turned into a Poison value.
* SBool  -- z3 Bool; bool(SBool) forks the path through the current Explorer.
* Poison -- a value outside the model; it propagates through data flow and raises OutOfModel when it
            reaches a branch or an observed value.

Concrete values stay ordinary Python values (full constant folding).
"""
import builtins
import z3

_isinstance = builtins.isinstance
_max, _min, _abs, _any, _all, _len = builtins.max, builtins.min, builtins.abs, builtins.any, builtins.all, builtins.len


class Abort(BaseException):
    """current path is infeasible"""


class OutOfModel(BaseException):
    """the execution left the modelled fragment (path is reported as not encoded)"""


class Undecided(BaseException):
    """solver returned unknown / timed out"""


class PathCap(BaseException):
    """exploration cap reached"""


EX = None  # current Explorer (set by sx.explore)
SHARE_PRODUCTS = True


def set_explorer(ex):
    global EX
    EX = ex


def bits_for(lo, hi):
    def b(v):
        return (v.bit_length() if v >= 0 else (~v).bit_length()) + 1
    return _max(b(lo), b(hi))


# ----------------------------------------------------------------------------------------------- bools

class SBool:
    __slots__ = ('e',)
    __array_ufunc__ = None

    def __init__(self, e):
        self.e = e

    def __bool__(self):
        if EX is None:
            raise OutOfModel('bool() of symbolic value outside exploration')
        return EX.branch(self.e)

    def __invert__(self):
        return mk_bool(z3.Not(self.e))

    def __and__(self, o):
        if not is_boolish(o):
            return NotImplemented
        return mk_bool(z3.And(self.e, lift_bool(o)))
    __rand__ = __and__

    def __or__(self, o):
        if not is_boolish(o):
            return NotImplemented
        return mk_bool(z3.Or(self.e, lift_bool(o)))
    __ror__ = __or__

    def __xor__(self, o):
        if not is_boolish(o):
            return NotImplemented
        return mk_bool(z3.Xor(self.e, lift_bool(o)))
    __rxor__ = __xor__

    def __eq__(self, o):
        if is_boolish(o):
            return mk_bool(self.e == lift_bool(o))
        return icmp(bool_to_int(self), o, '==')

    def __ne__(self, o):
        if is_boolish(o):
            return mk_bool(self.e != lift_bool(o))
        return icmp(bool_to_int(self), o, '!=')
    __hash__ = object.__hash__

    def __deepcopy__(self, memo):
        return self

    def __copy__(self):
        return self

    def __repr__(self):
        return 'SBool(..)'

    # arithmetic on a symbolic bool behaves like on 0/1
    def __add__(self, o): return bool_to_int(self) + o
    def __radd__(self, o): return o + bool_to_int(self)
    def __sub__(self, o): return bool_to_int(self) - o
    def __rsub__(self, o): return o - bool_to_int(self)
    def __mul__(self, o): return bool_to_int(self) * o
    def __rmul__(self, o): return o * bool_to_int(self)
    def __lt__(self, o): return bool_to_int(self) < o
    def __le__(self, o): return bool_to_int(self) <= o
    def __gt__(self, o): return bool_to_int(self) > o
    def __ge__(self, o): return bool_to_int(self) >= o


def is_boolish(x):
    return _isinstance(x, (bool, SBool))


def lift_bool(b):
    if _isinstance(b, SBool):
        return b.e
    if _isinstance(b, Poison):
        raise OutOfModel('poison in condition: ' + b.why)
    return z3.BoolVal(bool(b))


def mk_bool(e):
    e = z3.simplify(e)
    if z3.is_true(e):
        return True
    if z3.is_false(e):
        return False
    return SBool(e)


def bool_to_int(b):
    if _isinstance(b, bool):
        return int(b)
    return mk(z3.If(b.e, z3.BitVecVal(1, 2), z3.BitVecVal(0, 2)), 0, 1)


def b_and(*xs):
    if _any(x is False for x in xs):
        return False
    es = [lift_bool(x) for x in xs if x is not True]
    if not es:
        return True
    return mk_bool(z3.And(*es))


def b_or(*xs):
    if _any(x is True for x in xs):
        return True
    es = [lift_bool(x) for x in xs if x is not False]
    if not es:
        return False
    return mk_bool(z3.Or(*es))


def b_not(x):
    if _isinstance(x, bool):
        return not x
    return mk_bool(z3.Not(lift_bool(x)))


def b_implies(a, b):
    return b_or(b_not(a), b)


def b_iff(a, b):
    if _isinstance(a, bool) and _isinstance(b, bool):
        return a == b
    return mk_bool(lift_bool(a) == lift_bool(b))


def b_ite(c, a, b):
    if c is True:
        return a
    if c is False:
        return b
    return mk_bool(z3.If(lift_bool(c), lift_bool(a), lift_bool(b)))


# ----------------------------------------------------------------------------------------------- poison

class Poison:
    """value the model cannot represent; only observable use raises"""
    __slots__ = ('why',)
    __array_ufunc__ = None

    def __init__(self, why):
        self.why = why

    def _p(self, *a, **k):
        return self

    def __bool__(self):
        raise OutOfModel('poison reached a branch: ' + self.why)

    def __index__(self):
        raise OutOfModel('poison used as index: ' + self.why)
    __int__ = __float__ = __index__

    def __repr__(self):
        return 'Poison(%s)' % self.why

    def __deepcopy__(self, memo):
        return self
    __hash__ = object.__hash__

    def __getattr__(self, name):
        if name.startswith('__'):
            raise AttributeError(name)
        return self._p                   # any method call on a poisoned value yields the poisoned value

    def __call__(self, *a, **k):
        return self


for _n in ('add radd sub rsub mul rmul truediv rtruediv floordiv rfloordiv mod rmod pow rpow neg pos abs invert '
           'lshift rlshift rshift rrshift and rand or ror xor rxor lt le gt ge eq ne').split():
    setattr(Poison, '__%s__' % _n, Poison._p)


def is_poison(x):
    return _isinstance(x, Poison)


# ----------------------------------------------------------------------------------------------- ints

class SInt:
    __slots__ = ('bv', 'lo', 'hi')
    __array_ufunc__ = None

    def __init__(self, bv, lo, hi):
        self.bv, self.lo, self.hi = bv, lo, hi

    @property
    def w(self):
        return self.bv.size()

    def ext(self, w):
        sw = self.bv.size()
        if w == sw:
            return self.bv
        if w < sw:
            return z3.Extract(w - 1, 0, self.bv)
        return z3.SignExt(w - sw, self.bv)

    def __repr__(self):
        return 'SInt[%d..%d]' % (self.lo, self.hi) if self.hi < 1 << 70 else 'SInt[%d bits]' % self.w

    def __deepcopy__(self, memo):
        return self

    def __copy__(self):
        return self

    __hash__ = object.__hash__

    def __bool__(self):
        return bool(icmp(self, 0, '!='))

    def __index__(self):
        raise OutOfModel('symbolic integer used where a concrete index is required')

    def __int__(self):
        raise OutOfModel('int() of a symbolic integer reached C code')

    def __float__(self):
        raise OutOfModel('float() of a symbolic integer reached C code')

    def bit_length(self):
        return ibitlen(self)

    def __round__(self, n=None):
        return self

    def __trunc__(self):
        return self

    def __floor__(self):
        return self

    def __ceil__(self):
        return self

    @property
    def real(self):
        return self

    @property
    def imag(self):
        return 0

    def conjugate(self):
        return self


_var_counter = [0]


def fresh_name(prefix):
    _var_counter[0] += 1
    return '%s!%d' % (prefix, _var_counter[0])


def int_var(name, lo, hi):
    """fresh symbolic integer with lo <= v <= hi; returns (SInt, domain constraint)"""
    if lo == hi:
        return lo, z3.BoolVal(True)
    w = bits_for(lo, hi)
    v = z3.BitVec(name, w)
    return SInt(v, lo, hi), z3.And(v >= z3.BitVecVal(lo, w), v <= z3.BitVecVal(hi, w))


def bool_var(name):
    return SBool(z3.Bool(name))


def lift(x):
    if _isinstance(x, SInt):
        return x
    if _isinstance(x, SBool):
        return lift(bool_to_int(x))
    if _isinstance(x, (bool, int)):
        x = int(x)
        return SInt(z3.BitVecVal(x, bits_for(x, x)), x, x)
    raise TypeError('lift(%r)' % (type(x),))


def mk(bv, lo, hi):
    if lo > hi:
        raise Abort()
    if lo == hi:
        return lo
    w = bits_for(lo, hi)
    sw = bv.size()
    if sw > w:
        bv = z3.Extract(w - 1, 0, bv)
    elif sw < w:
        bv = z3.SignExt(w - sw, bv)
    return SInt(bv, lo, hi)


def is_int(x):
    return _isinstance(x, (int, SInt)) and not _isinstance(x, bool)


def is_intlike(x):
    return _isinstance(x, (int, SInt, SBool))


def is_sym(x):
    return _isinstance(x, (SInt, SFloat, SBool, Poison, SComplex)) or (hasattr(x, '_sx_symbolic') and x._sx_symbolic())


def irange(x):
    if _isinstance(x, SInt):
        return x.lo, x.hi
    x = int(x)
    return x, x


def _bin(a, b, f, lo, hi):
    w = _max(bits_for(lo, hi), a.w, b.w)
    return mk(f(a.ext(w), b.ext(w)), lo, hi)


def iadd(a, b):
    if not _isinstance(a, (SInt, SBool)) and not _isinstance(b, (SInt, SBool)):
        return int(a) + int(b)
    a, b = lift(a), lift(b)
    return _bin(a, b, lambda x, y: x + y, a.lo + b.lo, a.hi + b.hi)


def isub(a, b):
    if not _isinstance(a, (SInt, SBool)) and not _isinstance(b, (SInt, SBool)):
        return int(a) - int(b)
    # canonical form a + (~b + 1): the same term whether the code subtracts or adds a negation (int64 - uint64 goes through float64)
    return iadd(a, ineg(b))


def ineg(a):
    if not _isinstance(a, (SInt, SBool)):
        return -int(a)
    a = lift(a)
    lo, hi = -a.hi, -a.lo
    w = _max(bits_for(lo, hi), a.w)
    x = a.ext(w)
    return mk(~x + 1, lo, hi)            # not `0 - x`: z3 rewrites that into a multiplication by -1


def imul(a, b):
    if not _isinstance(a, (SInt, SBool)) and not _isinstance(b, (SInt, SBool)):
        return int(a) * int(b)
    a, b = lift(a), lift(b)
    if a.lo == a.hi:
        a, b = b, a
    if b.lo == b.hi:
        c = b.lo
        if c == 0:
            return 0
        if c == 1:
            return a
        if c == -1:
            return ineg(a)
        m = _abs(c)
        if m & (m - 1) == 0:            # multiply by +-2^k: shift (no multiplier circuit)
            k = m.bit_length() - 1
            lo, hi = sorted((a.lo * m, a.hi * m))
            w = bits_for(lo, hi)
            r = mk(a.ext(w) << k, lo, hi)
            return r if c > 0 else ineg(r)
        # other constants: an ordinary bit-vector product with a constant (not a shared symbolic product)
        lo, hi = sorted((a.lo * c, a.hi * c))
        return _bin(a, b, lambda x, y: x * y, lo, hi)
    c = [a.lo * b.lo, a.lo * b.hi, a.hi * b.lo, a.hi * b.hi]
    if EX is not None and SHARE_PRODUCTS:
        return EX.product(a, b, _min(c), _max(c))
    return _bin(a, b, lambda x, y: x * y, _min(c), _max(c))


_CMP = {'<': lambda x, y: x < y, '<=': lambda x, y: x <= y, '>': lambda x, y: x > y,
        '>=': lambda x, y: x >= y, '==': lambda x, y: x == y, '!=': lambda x, y: x != y}


def icmp(a, b, op):
    if not _isinstance(a, (SInt, SBool)) and not _isinstance(b, (SInt, SBool)):
        return _CMP[op](int(a), int(b))
    a, b = lift(a), lift(b)
    # decide from the static ranges first
    if a.hi < b.lo:
        return op in ('<', '<=', '!=')
    if a.lo > b.hi:
        return op in ('>', '>=', '!=')
    if a.hi <= b.lo:
        if op == '<=':
            return True
        if op == '>':
            return False
    if a.lo >= b.hi:
        if op == '>=':
            return True
        if op == '<':
            return False
    if a.lo == a.hi == b.lo == b.hi:
        return _CMP[op](a.lo, b.lo)
    w = _max(a.w, b.w)
    return mk_bool(_CMP[op](a.ext(w), b.ext(w)))


def ishr(a, g):
    """floor(a / 2**g)"""
    if not _isinstance(a, SInt):
        return int(a) >> g
    if g == 0:
        return a
    if g >= a.w:
        # result is 0 or -1 depending on sign
        return mk(a.bv >> (a.w - 1), a.lo >> g, a.hi >> g)
    return mk(a.bv >> g, a.lo >> g, a.hi >> g)


def imod_pow2(a, g):
    """a mod 2**g (non-negative)"""
    if not _isinstance(a, SInt):
        return int(a) % (1 << g)
    if g == 0:
        return 0
    if a.lo >= 0 and a.hi < (1 << g):
        return a
    w = _max(a.w, g + 1)
    lo, hi = 0, (1 << g) - 1
    if (a.lo >> g) == (a.hi >> g):       # same residue block: tighter range
        lo, hi = a.lo - ((a.lo >> g) << g), a.hi - ((a.hi >> g) << g)
    return mk(z3.ZeroExt(1, z3.Extract(g - 1, 0, a.ext(w))), lo, hi)


def ishl(a, n):
    return imul(a, 1 << n)


def iite(c, a, b):
    if c is True:
        return a
    if c is False:
        return b
    if is_poison(a) or is_poison(b):
        return a if is_poison(a) else b
    if _isinstance(a, (SFloat, float)) or _isinstance(b, (SFloat, float)):
        return fite(c, a, b)
    if _isinstance(a, (bool, SBool)) and _isinstance(b, (bool, SBool)):
        return b_ite(c, a, b)
    a, b = lift(a), lift(b)
    if a.lo == a.hi == b.lo == b.hi:
        return a.lo
    w = _max(a.w, b.w)
    return mk(z3.If(lift_bool(c), a.ext(w), b.ext(w)), _min(a.lo, b.lo), _max(a.hi, b.hi))


def imin(a, b):
    la, lb = irange(a), irange(b)
    if la[1] <= lb[0]:
        return a
    if lb[1] <= la[0]:
        return b
    a2, b2 = lift(a), lift(b)
    w = _max(a2.w, b2.w)
    return mk(z3.If(a2.ext(w) <= b2.ext(w), a2.ext(w), b2.ext(w)), _min(la[0], lb[0]), _min(la[1], lb[1]))


def imax(a, b):
    la, lb = irange(a), irange(b)
    if la[0] >= lb[1]:
        return a
    if lb[0] >= la[1]:
        return b
    a2, b2 = lift(a), lift(b)
    w = _max(a2.w, b2.w)
    return mk(z3.If(a2.ext(w) >= b2.ext(w), a2.ext(w), b2.ext(w)), _max(la[0], lb[0]), _max(la[1], lb[1]))


def iabs(a):
    if not _isinstance(a, SInt):
        return _abs(int(a))
    if a.lo >= 0:
        return a
    if a.hi <= 0:
        return ineg(a)
    hi = _max(-a.lo, a.hi)
    w = _max(bits_for(0, hi), a.w)
    x = a.ext(w)
    sgn = x >> (w - 1)                   # arithmetic shift: all ones when negative
    return mk((x ^ sgn) - sgn, 0, hi)


def _full(w):
    return -(1 << (w - 1)), (1 << (w - 1)) - 1


def iand(a, b):
    if not _isinstance(a, SInt) and not _isinstance(b, SInt):
        return int(a) & int(b)
    a, b = lift(a), lift(b)
    # mask by 2^g-1 is mod 2^g
    for x, y in ((a, b), (b, a)):
        if y.lo == y.hi and y.lo >= 0 and (y.lo & (y.lo + 1)) == 0:
            return imod_pow2(x, y.lo.bit_length())
    w = _max(a.w, b.w)
    if a.lo >= 0 and b.lo >= 0:
        lo, hi = 0, _min(a.hi, b.hi)
    elif b.lo >= 0:
        lo, hi = 0, b.hi
    elif a.lo >= 0:
        lo, hi = 0, a.hi
    else:
        lo, hi = _full(w)
    return mk(a.ext(w) & b.ext(w), lo, hi)


def ior(a, b):
    if not _isinstance(a, SInt) and not _isinstance(b, SInt):
        return int(a) | int(b)
    a, b = lift(a), lift(b)
    w = _max(a.w, b.w)
    if a.lo >= 0 and b.lo >= 0:
        lo, hi = _max(a.lo, b.lo), (1 << _max(a.hi.bit_length(), b.hi.bit_length())) - 1
    elif a.hi < 0 or b.hi < 0:
        # at least one operand negative => result negative, >= the max of the negative lower bounds
        lo, hi = _full(w)[0], -1
    else:
        lo, hi = _full(w)
    return mk(a.ext(w) | b.ext(w), lo, hi)


def ixor(a, b):
    if not _isinstance(a, SInt) and not _isinstance(b, SInt):
        return int(a) ^ int(b)
    a, b = lift(a), lift(b)
    w = _max(a.w, b.w)
    if a.lo >= 0 and b.lo >= 0:
        lo, hi = 0, (1 << _max(a.hi.bit_length(), b.hi.bit_length())) - 1
    else:
        lo, hi = _full(w)
    return mk(a.ext(w) ^ b.ext(w), lo, hi)


def iinv(a):
    return isub(-1, a)


def is_pow2(n):
    return _isinstance(n, int) and not _isinstance(n, bool) and n > 0 and n & (n - 1) == 0


def _divrange(a, b):
    if b.lo > 0 or b.hi < 0:
        c = [a.lo // b.lo, a.lo // b.hi, a.hi // b.lo, a.hi // b.hi]
        return _min(c), _max(c)
    m = _max(_abs(a.lo), _abs(a.hi))
    return -m, m


def _modrange(a, b):
    if b.lo > 0:
        if a.lo >= 0 and a.hi < b.lo:
            return a.lo, a.hi
        return 0, b.hi - 1
    if b.hi < 0:
        return b.lo + 1, 0
    return _min(b.lo + 1, 0), _max(b.hi - 1, 0)


def idivmod(a, b, zero='raise'):
    """Python floor division and modulo.  zero: 'raise' (Python) | 'numpy' (result 0)."""
    if not _isinstance(a, SInt) and not _isinstance(b, SInt):
        a, b = int(a), int(b)
        if b == 0:
            if zero == 'raise':
                raise ZeroDivisionError('integer division or modulo by zero')
            return 0, 0
        return a // b, a % b
    if is_pow2(b) and not _isinstance(b, SInt):
        g = b.bit_length() - 1
        return ishr(a, g), imod_pow2(a, g)
    a, b = lift(a), lift(b)
    zc = icmp(b, 0, '==')
    if zero == 'raise':
        if zc is True or (zc is not False and bool(zc)):
            raise ZeroDivisionError('integer division or modulo by zero')
        zc = False
    if zc is not False and EX is not None and EX.implied(b_not(zc)):
        zc = False                              # the path condition excludes a zero divisor
    qlo, qhi = _divrange(a, b)
    rlo, rhi = _modrange(a, b)
    if zc is not False:
        qlo, qhi, rlo, rhi = _min(qlo, 0), _max(qhi, 0), _min(rlo, 0), _max(rhi, 0)
    w = _max(a.w, b.w) + 1
    # one quotient/remainder kernel per operand pair: the lifted code and the specification (and the raw and repr methods)
    # then share one syntactic term, so no query has to prove two divider circuits equivalent
    key = (a.bv.get_id(), b.bv.get_id(), w)
    memo = getattr(EX, '_divs', None) if EX is not None else None
    hit = memo.get(key) if memo is not None else None
    if hit is not None:
        q, r = hit[0], hit[1]
    else:
        x, y = a.ext(w), b.ext(w)
        ysafe = y if (b.lo > 0 or b.hi < 0) else z3.If(y == 0, z3.BitVecVal(1, w), y)
        if a.lo >= 0 and b.lo >= 0:
            q, r = z3.UDiv(x, ysafe), z3.URem(x, ysafe)          # both operands non-negative: no floor correction
        else:
            qt, rt = x / ysafe, z3.SRem(x, ysafe)
            adj = z3.And(rt != 0, (rt < 0) != (ysafe < 0))
            q = z3.If(adj, qt - 1, qt)
            r = z3.If(adj, rt + ysafe, rt)
        if memo is not None:
            memo[key] = (q, r, a, b)                             # a, b kept alive: AST ids are recycled once a term is freed
            # valid facts about the kernel (0 <= |r| < |y|, r has the divisor's sign; static ranges), given to the solver as lemmas:
            # the narrowed result vectors otherwise hide them behind a divider circuit
            dq = _divrange(a, b)
            dr = _modrange(a, b)
            if not (b.lo > 0 or b.hi < 0):
                dq, dr = (_min(dq[0], -_abs(a.lo), -_abs(a.hi)), _max(dq[1], _abs(a.lo), _abs(a.hi))), (_min(dr[0], 0), _max(dr[1], 0))
            bv = lambda v: z3.BitVecVal(v, w)
            EX.lemma(z3.And(z3.If(ysafe > 0, z3.And(r >= 0, r < ysafe), z3.And(r <= 0, r > ysafe)),
                            r >= bv(dr[0]), r <= bv(dr[1]), q >= bv(dq[0]), q <= bv(dq[1])))
    if zc is not False:
        y = b.ext(w)
        q = z3.If(y == 0, z3.BitVecVal(0, w), q)
        r = z3.If(y == 0, z3.BitVecVal(0, w), r)
    return mk(q, qlo, qhi), mk(r, rlo, rhi)


def ifloordiv(a, b, zero='raise'):
    return idivmod(a, b, zero)[0]


def imod(a, b, zero='raise'):
    return idivmod(a, b, zero)[1]


def ibitlen(a):
    """int.bit_length()"""
    if not _isinstance(a, SInt):
        return int(a).bit_length()
    m = iabs(a)
    if not _isinstance(m, SInt):
        return m.bit_length()
    lo, hi = m.lo.bit_length(), m.hi.bit_length()
    r = hi
    for n in range(hi - 1, lo - 1, -1):
        r = iite(icmp(m, 1 << n, '<'), n, r)
    return r


def ipow(a, n):
    if _isinstance(n, SInt):
        raise OutOfModel('symbolic exponent')
    if not _isinstance(a, SInt):
        return a ** n
    if n < 0:
        raise OutOfModel('negative power of symbolic int')
    r = 1
    for _ in range(n):
        r = imul(r, a)
    return r


def refine(v, lo, hi):
    """does the path condition imply lo <= v <= hi ?  returns v re-typed to the tighter range, or None"""
    if not _isinstance(v, SInt):
        return v if lo <= v <= hi else None
    if v.lo >= lo and v.hi <= hi:
        return v
    if v.hi < lo or v.lo > hi:
        return None
    if EX is None:
        return None
    w = _max(v.w, bits_for(lo, hi))
    x = v.ext(w)
    if EX.implied(z3.And(x >= z3.BitVecVal(lo, w), x <= z3.BitVecVal(hi, w))):
        return mk(v.bv, _max(lo, v.lo), _min(hi, v.hi))
    return None


def concretize(v, limit=600):
    """fork the path over the possible values of a symbolic integer with a small static range (sizes, shift counts)"""
    if not _isinstance(v, SInt):
        return int(v)
    if v.hi - v.lo > limit:
        raise OutOfModel('symbolic integer with a large range used where a concrete value is required')
    for c in range(v.lo, v.hi):
        if bool(icmp(v, c, '==')):
            return c
    return v.hi


def _coerce_int_operand(b):
    """operand kinds accepted by SInt operators; returns ('i', v) | ('f', v) | None"""
    if _isinstance(b, (SInt, SBool)) or (_isinstance(b, int)):
        return 'i'
    if _isinstance(b, (float, SFloat)):
        return 'f'
    if _isinstance(b, Poison):
        return 'p'
    return None


def _mkop(iop, fop):
    def f(a, b):
        k = _coerce_int_operand(b)
        if k == 'i':
            return iop(a, b)
        if k == 'f':
            return fop(int_to_float(a), b)
        if k == 'p':
            return b
        return NotImplemented

    def r(a, b):
        k = _coerce_int_operand(b)
        if k == 'i':
            return iop(b, a)
        if k == 'f':
            return fop(b, int_to_float(a))
        if k == 'p':
            return b
        return NotImplemented
    return f, r


def _install_int_ops():
    S = SInt
    S.__add__, S.__radd__ = _mkop(iadd, lambda x, y: fadd(x, y))
    S.__sub__, S.__rsub__ = _mkop(isub, lambda x, y: fsub(x, y))
    S.__mul__, S.__rmul__ = _mkop(imul, lambda x, y: fmul(x, y))
    S.__floordiv__, S.__rfloordiv__ = _mkop(ifloordiv, lambda x, y: ffloordiv(x, y))
    S.__mod__, S.__rmod__ = _mkop(imod, lambda x, y: fmod(x, y))
    S.__and__, S.__rand__ = _mkop(iand, lambda x, y: NotImplemented)
    S.__or__, S.__ror__ = _mkop(ior, lambda x, y: NotImplemented)
    S.__xor__, S.__rxor__ = _mkop(ixor, lambda x, y: NotImplemented)
    S.__neg__ = ineg
    S.__pos__ = lambda a: a
    S.__abs__ = iabs
    S.__invert__ = iinv

    def divmod_(a, b):
        return idivmod(a, b)
    S.__divmod__ = divmod_

    def truediv(a, b):
        k = _coerce_int_operand(b)
        if k == 'i':
            return int_truediv(a, b)
        if k == 'f':
            return ftruediv(int_to_float(a), b)
        if k == 'p':
            return b
        return NotImplemented

    def rtruediv(a, b):
        k = _coerce_int_operand(b)
        if k == 'i':
            return int_truediv(b, a)
        if k == 'f':
            return ftruediv(b, int_to_float(a))
        if k == 'p':
            return b
        return NotImplemented
    S.__truediv__, S.__rtruediv__ = truediv, rtruediv

    def lshift(a, n):
        if _isinstance(n, SInt):
            n = concretize(n)
        if not _isinstance(n, int):
            return NotImplemented
        if n < 0:
            raise ValueError('negative shift count')
        return ishl(a, n)

    def rshift(a, n):
        if _isinstance(n, SInt):
            n = concretize(n)
        if not _isinstance(n, int):
            return NotImplemented
        if n < 0:
            raise ValueError('negative shift count')
        return ishr(a, n)

    def rlshift(a, n):
        return n << concretize(a)

    def rrshift(a, n):
        return n >> concretize(a)
    S.__lshift__, S.__rshift__, S.__rlshift__, S.__rrshift__ = lshift, rshift, rlshift, rrshift

    def pow_(a, n, m=None):
        if m is not None:
            raise OutOfModel('3-arg pow')
        if _isinstance(n, (float, SFloat)):
            raise OutOfModel('float power')
        return ipow(a, n)
    S.__pow__ = pow_

    def rpow(a, b):
        return b ** concretize(a)
    S.__rpow__ = rpow
    for name, op in (('__lt__', '<'), ('__le__', '<='), ('__gt__', '>'), ('__ge__', '>='), ('__eq__', '=='), ('__ne__', '!=')):
        def mkc(op):
            def c(a, b):
                k = _coerce_int_operand(b)
                if k == 'i':
                    return icmp(a, b, op)
                if k == 'f':
                    return fcmp(a, b, op)
                if k == 'p':
                    return b
                if op == '==':
                    return False
                if op == '!=':
                    return True
                return NotImplemented
            return c
        setattr(S, name, mkc(op))


# ----------------------------------------------------------------------------------------------- floats

F64_MAXEXP = 1023
F64_MINEXP = -1074


class SFloat:
    """float64 value == num * 2**exp (exact)."""
    __slots__ = ('num', 'exp')
    __array_ufunc__ = None

    def __init__(self, num, exp):
        self.num, self.exp = num, exp

    def __repr__(self):
        return 'SFloat(%r * 2**%d)' % (self.num, self.exp)

    def __deepcopy__(self, memo):
        return self

    def __copy__(self):
        return self
    __hash__ = object.__hash__

    def __bool__(self):
        return bool(icmp(self.num, 0, '!='))

    def __float__(self):
        raise OutOfModel('float() of a symbolic float reached C code')

    def __int__(self):
        raise OutOfModel('int() of a symbolic float reached C code')

    def is_integer(self):
        if self.exp >= 0:
            return True
        return icmp(imod_pow2(self.num, -self.exp), 0, '==')

    @property
    def real(self):
        return self

    @property
    def imag(self):
        return 0.0

    def conjugate(self):
        return self

    def __round__(self, n=None):
        if n is None:
            return float_to_int(frint(self))
        raise OutOfModel('round(x, n)')

    def __trunc__(self):
        return float_to_int(ftrunc(self))

    def __floor__(self):
        return float_to_int(ffloor(self))

    def __ceil__(self):
        return float_to_int(fceil(self))


def mkf(num, exp):
    """normalise: concrete numerators become Python floats when exactly representable"""
    if is_poison(num):
        return num
    if not _isinstance(num, SInt):
        num = int(num)
        try:
            import math
            r = math.ldexp(float(num), exp) if _abs(num) < (1 << 1000) else None
        except OverflowError:
            r = None
        if r is not None and _from_float(r) == _norm_conc(num, exp):
            return r
        return SFloat(num, exp)
    return SFloat(num, exp)


def _norm_conc(num, exp):
    if num == 0:
        return (0, 0)
    tz = (num & -num).bit_length() - 1
    return (num >> tz, exp + tz)


def _from_float(x):
    n, d = x.as_integer_ratio()
    return _norm_conc(n, -(d.bit_length() - 1))


def flift(x):
    if _isinstance(x, SFloat):
        return x
    if _isinstance(x, float):
        if x != x or x in (float('inf'), float('-inf')):
            raise OutOfModel('non-finite float')
        n, e = _from_float(x)
        return SFloat(n, e)
    if _isinstance(x, (SInt, SBool)) or _isinstance(x, int):
        return flift(int_to_float(x))
    if hasattr(x, '_sx_scalar_value'):
        return flift(x._sx_scalar_value())
    raise TypeError('flift(%r)' % (type(x),))


def _is_floaty(x):
    return _isinstance(x, (float, SFloat))


def int_to_float(v, rounding=True):
    """int -> float64 conversion (round-to-nearest-even when the integer has more than 53 significant bits)"""
    if is_poison(v):
        return v
    if _isinstance(v, SBool):
        v = bool_to_int(v)
    if not _isinstance(v, SInt):
        try:
            return float(int(v))
        except OverflowError:
            raise OverflowError('int too large to convert to float')
    m = _max(_abs(v.lo), _abs(v.hi))
    if m <= (1 << 53):
        return SFloat(v, 0)
    r = refine(v, -(1 << 53), 1 << 53)
    if r is not None:
        return SFloat(r, 0)
    if m >= (1 << 1024):
        return Poison('int->float64 beyond double range')
    if not rounding:
        return Poison('int->float64 inexact')
    return SFloat(round53(v), 0)


def round53(v):
    """round integer v to 53 significant bits, ties to even (the value float(v) denotes).
    Encoding: normalise |v| with a logarithmic shifter (count-leading-zeros by binary search), round the top 53 bits
    with guard/sticky, shift back -- O(W log W) gates instead of one case per bit-length."""
    if not _isinstance(v, SInt):
        return int(float(v))
    m = _max(_abs(v.lo), _abs(v.hi))
    top = m.bit_length()
    if top <= 53:
        return v
    P = 64
    while P < top + 1:
        P *= 2
    a = iabs(v)
    n = z3.ZeroExt(P - a.w, a.bv) if a.w < P else z3.Extract(P - 1, 0, a.bv)
    conds = []
    k = P // 2
    while k >= 1:
        c = z3.Extract(P - 1, P - k, n) == z3.BitVecVal(0, k)
        n = z3.If(c, n << k, n)
        conds.append((c, k))
        k //= 2
    top53 = z3.Extract(P - 1, P - 53, n)
    rest = z3.Extract(P - 54, 0, n)
    half = z3.BitVecVal(1 << (P - 54), P - 53)
    up = z3.Or(z3.UGT(rest, half), z3.And(rest == half, z3.Extract(0, 0, top53) == z3.BitVecVal(1, 1)))
    mant = z3.ZeroExt(1, top53) + z3.If(up, z3.BitVecVal(1, 54), z3.BitVecVal(0, 54))          # 54 bits, may be 2^53
    r = z3.Concat(mant, z3.BitVecVal(0, P - 53))                                                  # P + 1 bits
    for c, k in reversed(conds):
        r = z3.If(c, z3.LShR(r, k), r)
    # values with <= 53 significant bits come back unchanged (rest == 0); zero stays zero
    hi = 1 << top
    mag = mk(z3.ZeroExt(1, r), 0, hi)
    res = iite(icmp(v, 0, '<'), ineg(mag), mag)
    memo = getattr(EX, '_rne', None) if EX is not None else None
    if memo is not None and _isinstance(res, SInt):
        memo[res.bv.get_id()] = (v, res)          # both kept alive (AST ids are recycled); used by fcmp: round53(v) == v  <=>  v is a double
    return res


def fits53(n):
    """integer n has at most 53 significant bits (float(n) == n)"""
    if not _isinstance(n, SInt):
        n = _abs(int(n))
        while n and n % 2 == 0:
            n //= 2
        return n < (1 << 53)
    a = iabs(n)
    top = _max(_abs(n.lo), _abs(n.hi)).bit_length()
    if top <= 53:
        return True
    alts = [icmp(a, 1 << 53, '<')]
    for sh in range(1, top - 53 + 1):
        alts.append(b_and(icmp(a, 1 << (53 + sh), '<'), icmp(imod_pow2(a, sh), 0, '==')))
    return b_or(*alts)


def _fexact(num, exp, why):
    """result of a float operation whose exact value is num*2**exp: must be representable, else round/poison"""
    if is_poison(num):
        return num
    if not _isinstance(num, SInt):
        return mkf_round(num, exp)
    m = _max(_abs(num.lo), _abs(num.hi))
    if m <= (1 << 53):
        return SFloat(num, exp)
    r = refine(num, -(1 << 53), 1 << 53)
    if r is not None:
        return SFloat(r, exp)
    if m.bit_length() <= 1100:
        return SFloat(round53(num), exp)
    return Poison('inexact float operation: ' + why)


def mkf_round(num, exp):
    """concrete dyadic -> nearest float (Python float)"""
    from fractions import Fraction
    fr = Fraction(num) * (Fraction(2) ** exp)
    return float(fr)


def faligned(a, b):
    a, b = flift(a), flift(b)
    e = _min(a.exp, b.exp)
    x = ishl(a.num, a.exp - e) if a.exp > e else a.num
    y = ishl(b.num, b.exp - e) if b.exp > e else b.num
    return x, y, e


def _xlift(x):
    """exact lift for comparisons: Python compares int with float exactly (no conversion of the int)"""
    if _isinstance(x, (SInt, SBool)) or _isinstance(x, int):
        return SFloat(bool_to_int(x) if _isinstance(x, (bool, SBool)) else x, 0)
    return flift(x)


def fcmp(a, b, op):
    if is_poison(a) or is_poison(b):
        return a if is_poison(a) else b
    if not is_sym(a) and not is_sym(b):
        return _CMP[op](a, b)
    x, y, _ = faligned(_xlift(a), _xlift(b))
    if op in ('==', '!=') and _isinstance(x, SInt) and _isinstance(y, SInt):
        memo = getattr(EX, '_rne', None) if EX is not None else None
        if memo:
            for p, q in ((x, y), (y, x)):
                hit = memo.get(q.bv.get_id())
                if hit is not None and hit[0].bv.get_id() == p.bv.get_id():
                    # comparing an integer with its own correctly rounded double: equal iff it has <= 53 significant bits
                    d = fits53(p)
                    return d if op == '==' else b_not(d)
    return icmp(x, y, op)


def fneg(a):
    a = flift(a)
    return mkf(ineg(a.num), a.exp)


def fabs(a):
    a = flift(a)
    return mkf(iabs(a.num), a.exp)


def _pow2_of(x):
    """if concrete x is +-2^k return (sign, k) else None"""
    if _isinstance(x, SFloat):
        if _isinstance(x.num, SInt):
            return None
        n, e = x.num, x.exp
    elif _isinstance(x, float):
        if x == 0 or x != x or x in (float('inf'), float('-inf')):
            return None
        n, e = _from_float(x)
    elif _isinstance(x, int) and not _isinstance(x, bool):
        if x == 0:
            return None
        n, e = _norm_conc(x, 0)
    else:
        return None
    if n in (1, -1):
        return n, e
    return None


def fmul(a, b):
    if is_poison(a) or is_poison(b):
        return a if is_poison(a) else b
    if not is_sym(a) and not is_sym(b):
        return float(a) * float(b)
    if _isinstance(a, (SInt, SBool)) or (_isinstance(a, int)):
        a = int_to_float(a)
    if _isinstance(b, (SInt, SBool)) or (_isinstance(b, int)):
        b = int_to_float(b)
    if is_poison(a) or is_poison(b):
        return a if is_poison(a) else b
    for x, y in ((a, b), (b, a)):
        p = _pow2_of(y)
        if p is not None:                       # scaling by a power of two: exact
            x = flift(x)
            return mkf(x.num if p[0] > 0 else ineg(x.num), x.exp + p[1])
    a, b = flift(a), flift(b)
    if not _isinstance(b.num, SInt) and b.num == 0 or not _isinstance(a.num, SInt) and a.num == 0:
        return 0.0
    return _fexact(imul(a.num, b.num), a.exp + b.exp, 'mul')


def fadd(a, b):
    if is_poison(a) or is_poison(b):
        return a if is_poison(a) else b
    if not is_sym(a) and not is_sym(b):
        return float(a) + float(b)
    if _isinstance(a, (SInt, SBool)) or (_isinstance(a, int)):
        a = int_to_float(a)
    if _isinstance(b, (SInt, SBool)) or (_isinstance(b, int)):
        b = int_to_float(b)
    if is_poison(a) or is_poison(b):
        return a if is_poison(a) else b
    x, y, e = faligned(a, b)
    return _fexact(iadd(x, y), e, 'add')


def fsub(a, b):
    if is_poison(a) or is_poison(b):
        return a if is_poison(a) else b
    if not is_sym(a) and not is_sym(b):
        return float(a) - float(b)
    if _isinstance(b, (SInt, SBool)) or (_isinstance(b, int)):
        b = int_to_float(b)
    if is_poison(b):
        return b
    return fadd(a, fneg(b))


def int_truediv(a, b):
    """Python int / int -> float (correctly rounded)"""
    if not _isinstance(a, (SInt, SBool)) and not _isinstance(b, (SInt, SBool)):
        return int(a) / int(b)
    if is_pow2(b) and not _isinstance(b, SInt):
        return _fexact(a if _isinstance(a, SInt) else int(a), -(b.bit_length() - 1), 'int/int')
    return ftruediv(int_to_float(a), int_to_float(b))


def ftruediv(a, b):
    if is_poison(a) or is_poison(b):
        return a if is_poison(a) else b
    if not is_sym(a) and not is_sym(b):
        return float(a) / float(b)
    if _isinstance(a, (SInt, SBool)) or (_isinstance(a, int)):
        a = int_to_float(a)
    if _isinstance(b, (SInt, SBool)) or (_isinstance(b, int)):
        b = int_to_float(b)
    if is_poison(a) or is_poison(b):
        return a if is_poison(a) else b
    p = _pow2_of(b)
    if p is not None:
        a = flift(a)
        return mkf(a.num if p[0] > 0 else ineg(a.num), a.exp - p[1])
    a, b = flift(a), flift(b)
    if not _isinstance(b.num, SInt):
        # division by a concrete non-power-of-two: exact only when the numerator divides
        if b.num == 0:
            return Poison('float division by zero')
        q, r = idivmod(a.num, b.num)
        if EX is not None and _isinstance(r, SInt) and EX.implied(lift_bool(icmp(r, 0, '=='))):
            return _fexact(q, a.exp - b.exp, 'div')
        if not _isinstance(r, SInt) and r == 0:
            return _fexact(q, a.exp - b.exp, 'div')
        return _fdiv_const(a, b)
    return Poison('float division by a symbolic value')


def _fdiv_const(a, b):
    """correctly rounded a / b for a concrete divisor b = d * 2^e (d odd, not 1): the quotient of |a.num| * 2^K by d with K large enough that
    it has more than 55 significant bits for every non-zero numerator, a sticky bit for the remainder, then round-to-nearest-even to 53 bits"""
    d = _abs(b.num)
    m = _max(_abs(a.num.lo), _abs(a.num.hi))
    if m.bit_length() > 256:
        return Poison('inexact float division by %r' % (b.num,))
    K = 56 + d.bit_length()
    mag = iabs(a.num)
    num = ishl(mag, K)
    if EX is not None and _isinstance(num, SInt):
        # quotient and remainder as fresh variables defined through a multiplication by the constant (no divider circuit)
        Q, dq = int_var(fresh_name('fq'), 0, num.hi // d)
        R, dr = int_var(fresh_name('fr'), 0, d - 1)
        EX.assume(mk_bool(z3.And(dq, dr)))
        EX.assume(icmp(iadd(imul(Q, d), R), num, '=='))
    else:
        Q, R = idivmod(num, d)
    t = iadd(ishl(Q, 1), iite(icmp(R, 0, '!='), 1, 0))
    r53 = round53(t)
    neg = icmp(a.num, 0, '<')
    if b.num < 0:
        neg = b_not(neg)
    return SFloat(iite(neg, ineg(r53), r53), a.exp - b.exp - K - 1)


def ffloor(a):
    a = flift(a)
    if a.exp >= 0:
        return mkf(a.num, a.exp)
    return mkf(ishr(a.num, -a.exp), 0)


def fceil(a):
    a = flift(a)
    if a.exp >= 0:
        return mkf(a.num, a.exp)
    return mkf(ineg(ishr(ineg(a.num), -a.exp)), 0)


def ftrunc(a):
    a = flift(a)
    if a.exp >= 0:
        return mkf(a.num, a.exp)
    lo, hi = irange(a.num)
    if lo >= 0:
        return ffloor(a)
    if hi <= 0:
        return fceil(a)
    return mkf(iite(icmp(a.num, 0, '>='), flift(ffloor(a)).num, flift(fceil(a)).num), 0)


def frint(a):
    """round half to even (np.around / np.rint / round())"""
    a = flift(a)
    if a.exp >= 0:
        return mkf(a.num, a.exp)
    g = -a.exp
    fl = ishr(a.num, g)
    rem = imod_pow2(a.num, g)
    half = 1 << (g - 1)
    up = b_or(icmp(rem, half, '>'), b_and(icmp(rem, half, '=='), icmp(imod_pow2(fl, 1), 1, '==')))
    return mkf(iadd(fl, iite(up, 1, 0)), 0)


def float_to_int(a):
    """int(x) / C cast: truncation toward zero, exact Python integer"""
    if is_poison(a):
        return a
    if _isinstance(a, float):
        return int(a)
    t = flift(ftrunc(a))
    return ishl(t.num, t.exp) if t.exp > 0 else t.num


def ffloordiv(a, b):
    if is_poison(a) or is_poison(b):
        return a if is_poison(a) else b
    if not is_sym(a) and not is_sym(b):
        return float(a) // float(b)
    x, y, _ = faligned(a, b)
    if not _isinstance(y, SInt) and y == 0:
        return Poison('float floor-division by zero')
    if _isinstance(y, SInt) and not (y.lo > 0 or y.hi < 0):
        z = icmp(y, 0, '==')
        if z is not False and bool(z):
            return Poison('float floor-division by zero')
    q = ifloordiv(x, y)
    return _fexact(q, 0, 'floordiv')


def fmod(a, b):
    if is_poison(a) or is_poison(b):
        return a if is_poison(a) else b
    if not is_sym(a) and not is_sym(b):
        return float(a) % float(b)
    x, y, e = faligned(a, b)
    if not _isinstance(y, SInt) and y == 0:
        return Poison('float modulo by zero')
    if _isinstance(y, SInt) and not (y.lo > 0 or y.hi < 0):
        z = icmp(y, 0, '==')
        if z is not False and bool(z):
            return Poison('float modulo by zero')
    r = imod(x, y)
    return _fexact(r, e, 'mod')         # (the exact remainder may need more than 53 bits when the operands are far apart)


def fite(c, a, b):
    if c is True:
        return a
    if c is False:
        return b
    if is_poison(a) or is_poison(b):
        return a if is_poison(a) else b
    x, y, e = faligned(a, b)
    return mkf(iite(c, x, y), e)


def fmin(a, b):
    x, y, e = faligned(a, b)
    return mkf(imin(x, y), e)


def fmax(a, b):
    x, y, e = faligned(a, b)
    return mkf(imax(x, y), e)


def fpow(a, n):
    if _isinstance(n, int) and n >= 0 and n <= 4:
        r = 1.0
        for _ in range(n):
            r = fmul(r, a)
        return r
    return Poison('float power')


def ceil_log2(x):
    """smallest integer c with 2**c >= x, for x > 0 (== ceil(log2(x)) exactly)"""
    x = flift(x)
    lo, hi = irange(x.num)
    if lo <= 0:
        pos = icmp(x.num, 0, '>')
        if pos is False or (pos is not True and not bool(pos)):
            return Poison('log2 of non-positive value')
        lo = 1
    # candidate results: c in [cl, ch]
    def cl2(n, e):          # ceil(log2(n * 2^e)) for concrete n > 0
        return (n - 1).bit_length() + e
    cl, ch = cl2(lo, x.exp), cl2(hi, x.exp)
    r = ch
    for c in range(ch - 1, cl - 1, -1):
        # x <= 2^c  <=>  num <= 2^(c - exp)
        sh = c - x.exp
        le = icmp(x.num, 1 << sh, '<=') if sh >= 0 else False
        r = iite(le, c, r)
    return r


def _install_float_ops():
    F = SFloat

    def mk2(fn):
        def f(a, b):
            if _isinstance(b, (int, float, SInt, SFloat, SBool, Poison)):
                return fn(a, b)
            return NotImplemented

        def r(a, b):
            if _isinstance(b, (int, float, SInt, SFloat, SBool, Poison)):
                return fn(b, a)
            return NotImplemented
        return f, r
    F.__add__, F.__radd__ = mk2(fadd)
    F.__sub__, F.__rsub__ = mk2(fsub)
    F.__mul__, F.__rmul__ = mk2(fmul)
    F.__truediv__, F.__rtruediv__ = mk2(ftruediv)
    F.__floordiv__, F.__rfloordiv__ = mk2(ffloordiv)
    F.__mod__, F.__rmod__ = mk2(fmod)
    F.__neg__ = fneg
    F.__pos__ = lambda a: a
    F.__abs__ = fabs

    def pow_(a, n, m=None):
        return fpow(a, n)
    F.__pow__ = pow_
    F.__rpow__ = lambda a, b: Poison('symbolic exponent')
    for name, op in (('__lt__', '<'), ('__le__', '<='), ('__gt__', '>'), ('__ge__', '>='), ('__eq__', '=='), ('__ne__', '!=')):
        def mkc(op):
            def c(a, b):
                if _isinstance(b, (int, float, SInt, SFloat, SBool, Poison)):
                    return fcmp(a, b, op)
                if op == '==':
                    return False
                if op == '!=':
                    return True
                return NotImplemented
            return c
        setattr(F, name, mkc(op))


# ----------------------------------------------------------------------------------------------- complex

class SComplex:
    """complex128 value with (possibly symbolic) float parts"""
    __slots__ = ('re', 'im')
    __array_ufunc__ = None

    def __init__(self, re, im):
        self.re, self.im = re, im

    real = property(lambda s: s.re)
    imag = property(lambda s: s.im)

    def __repr__(self):
        return 'SComplex(%r, %r)' % (self.re, self.im)

    def __deepcopy__(self, memo):
        return self
    __hash__ = object.__hash__

    def conjugate(self):
        return mkc(self.re, fneg(self.im) if is_sym(self.im) else -self.im)

    def __bool__(self):
        return bool(b_or(fcmp(self.re, 0, '!='), fcmp(self.im, 0, '!=')))


def mkc(re, im):
    if not is_sym(re) and not is_sym(im):
        return complex(re, im)
    return SComplex(re, im)


def clift(x):
    if _isinstance(x, SComplex):
        return x
    if _isinstance(x, complex):
        return SComplex(x.real, x.imag)
    if _isinstance(x, (int, float, SInt, SFloat, SBool)):
        return SComplex(x if _is_floaty(x) else int_to_float(x), 0.0)
    if is_poison(x):
        return SComplex(x, x)
    raise TypeError('clift %r' % (type(x),))


def _tofl(x):
    return x if _is_floaty(x) or is_poison(x) else int_to_float(x)


def cadd(a, b):
    a, b = clift(a), clift(b)
    return mkc(fadd(a.re, b.re), fadd(a.im, b.im))


def csub(a, b):
    a, b = clift(a), clift(b)
    return mkc(fsub(a.re, b.re), fsub(a.im, b.im))


def cmul(a, b):
    a, b = clift(a), clift(b)
    # scaling by a real (imag part exactly 0.0) keeps it simple and exact for powers of two
    if not is_sym(b.im) and b.im == 0:
        return mkc(fmul(a.re, b.re), fmul(a.im, b.re))
    if not is_sym(a.im) and a.im == 0:
        return mkc(fmul(a.re, b.re), fmul(a.re, b.im))
    if not is_sym(b.re) and b.re == 0:          # times (0 + i*c)
        return mkc(fneg(fmul(a.im, b.im)), fmul(a.re, b.im))
    if not is_sym(a.re) and a.re == 0:
        return mkc(fneg(fmul(a.im, b.im)), fmul(a.im, b.re))
    return mkc(fsub(fmul(a.re, b.re), fmul(a.im, b.im)), fadd(fmul(a.re, b.im), fmul(a.im, b.re)))


def cdiv(a, b):
    a, b = clift(a), clift(b)
    if not is_sym(b.im) and b.im == 0:
        return mkc(ftruediv(a.re, b.re), ftruediv(a.im, b.re))
    return SComplex(Poison('complex division'), Poison('complex division'))


def ceq(a, b):
    a, b = clift(a), clift(b)
    return b_and(fcmp(a.re, b.re, '=='), fcmp(a.im, b.im, '=='))


def _install_complex_ops():
    C = SComplex
    ok = (int, float, complex, SInt, SFloat, SBool, SComplex, Poison)

    def mk2(fn):
        def f(a, b):
            return fn(a, b) if _isinstance(b, ok) else NotImplemented

        def r(a, b):
            return fn(b, a) if _isinstance(b, ok) else NotImplemented
        return f, r
    C.__add__, C.__radd__ = mk2(cadd)
    C.__sub__, C.__rsub__ = mk2(csub)
    C.__mul__, C.__rmul__ = mk2(cmul)
    C.__truediv__, C.__rtruediv__ = mk2(cdiv)
    C.__neg__ = lambda a: mkc(fneg(a.re), fneg(a.im))
    C.__pos__ = lambda a: a
    C.__eq__ = lambda a, b: ceq(a, b) if _isinstance(b, ok) else False
    C.__ne__ = lambda a, b: b_not(ceq(a, b)) if _isinstance(b, ok) else True


# make `complex * SFloat` and friends work: Python's complex does not know our types, so its
# operators return NotImplemented and the reflected SFloat/SInt operator runs; route those here.
def _patch_complex_interplay():
    for cls in (SFloat, SInt):
        for nm, fn in (('add', cadd), ('sub', csub), ('mul', cmul), ('truediv', cdiv)):
            f0 = getattr(cls, '__%s__' % nm)
            r0 = getattr(cls, '__r%s__' % nm)

            def mkf_(f0, fn):
                def f(a, b):
                    if _isinstance(b, (complex, SComplex)):
                        return fn(a, b)
                    return f0(a, b)
                return f

            def mkr_(r0, fn):
                def r(a, b):
                    if _isinstance(b, (complex, SComplex)):
                        return fn(b, a)
                    return r0(a, b)
                return r
            setattr(cls, '__%s__' % nm, mkf_(f0, fn))
            setattr(cls, '__r%s__' % nm, mkr_(r0, fn))


_install_int_ops()
_install_float_ops()
_install_complex_ops()
_patch_complex_interplay()


# ----------------------------------------------------------------------------------------------- evaluation under a model

def eval_under(model, v):
    """concretise a (possibly symbolic, possibly nested) value under a z3 model"""
    if _isinstance(v, SInt):
        r = model.eval(v.bv, model_completion=True).as_signed_long()
        return r
    if _isinstance(v, SBool):
        return z3.is_true(model.eval(v.e, model_completion=True))
    if _isinstance(v, SFloat):
        n = eval_under(model, v.num)
        from fractions import Fraction
        fr = Fraction(n) * Fraction(2) ** v.exp
        f = float(fr)
        if Fraction(f) != fr:
            return fr            # not a double: caller decides
        return f
    if _isinstance(v, SComplex):
        return complex(eval_under(model, v.re), eval_under(model, v.im))
    if _isinstance(v, Poison):
        return v
    if hasattr(v, '_sx_eval'):
        return v._sx_eval(model)
    if _isinstance(v, tuple):
        return tuple(eval_under(model, x) for x in v)
    if _isinstance(v, list):
        return [eval_under(model, x) for x in v]
    if _isinstance(v, dict):
        return {k: eval_under(model, x) for k, x in v.items()}
    return v


def refine_or(v, lo, hi):
    """refine(v, lo, hi) when the path condition allows it, else v unchanged (note: a refined value may be the int 0)"""
    r = refine(v, lo, hi)
    return v if r is None else r
