"""Re-decide exported verdict queries with independent solvers (cvc5 binary, z3 4.8.12 binary)."""
import os
import shutil
import subprocess
import tempfile


def _run(cmd, path, timeout):
    try:
        p = subprocess.run(cmd + [path], capture_output=True, text=True, timeout=timeout)
    except subprocess.TimeoutExpired:
        return 'timeout', ''
    out = (p.stdout or '') + (p.stderr or '')
    if '(error' in out:
        return 'error', out[:300]
    for tok in out.split():
        if tok in ('sat', 'unsat', 'unknown'):
            return tok, ''
    return 'noanswer', out[:300]


def run(queries, limit=12, timeout=60):
    solvers = []
    if shutil.which('cvc5'):
        solvers.append(('cvc5', ['cvc5', '--lang=smt2']))
    if os.path.exists('/usr/bin/z3'):
        solvers.append(('z3-4.8', ['/usr/bin/z3']))
    res = dict(queries=0, solvers=[n for n, _ in solvers], agree=0, disagreements=[], errors=[], timeouts=0)
    d = tempfile.mkdtemp(prefix='sx_cross_')
    try:
        for i, q in enumerate(queries[:limit]):
            path = os.path.join(d, 'q%d.smt2' % i)
            text = q['text']
            if '(check-sat)' not in text:
                text += '\n(check-sat)\n'
            open(path, 'w').write(text)
            res['queries'] += 1
            for name, cmd in solvers:
                r, msg = _run(cmd, path, timeout)
                if r == q['expect']:
                    res['agree'] += 1
                elif r in ('timeout', 'unknown'):
                    res['timeouts'] += 1
                elif r in ('error', 'noanswer'):
                    res['errors'].append(dict(solver=name, obligation=q['obligation'], msg=msg))
                else:
                    res['disagreements'].append(dict(solver=name, obligation=q['obligation'], expected=q['expect'], got=r))
    finally:
        shutil.rmtree(d, ignore_errors=True)
    return res
