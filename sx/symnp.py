"""NumPy overlay seen by the lifted fxpmath modules as `numpy`.

It re-exports the real NumPy type system and models arrays whose cells may be solver terms.
Whenever every operand is concrete the operation is delegated to the real NumPy (maximal fidelity);
otherwise the model below computes the result cell-wise on terms (NEP-50 promotion, exact value,
cast to the result dtype with explicit two's-complement wrap-around).

Inside this module the builtins max/min/abs/any/all/sum/round are shadowed by NumPy-like functions:
use the `_b` aliases.
"""
import builtins as _b
import operator as _op
import itertools as _it
import numpy as _np
import z3 as _z3
from . import term as T
from . import sstr as S
from .term import SInt, SFloat, SBool, SComplex, Poison, OutOfModel

_isinstance = _b.isinstance

# populated by sx.shims
INT_SHIM = FLOAT_SHIM = STR_SHIM = BOOL_SHIM = COMPLEX_SHIM = None

# ------------------------------------------------------------------------------------------ type system (real NumPy's)
generic = _np.generic
number, integer, signedinteger, unsignedinteger = _np.number, _np.integer, _np.signedinteger, _np.unsignedinteger
inexact, floating, complexfloating, flexible, character = _np.inexact, _np.floating, _np.complexfloating, _np.flexible, _np.character
int8, int16, int32, int64 = _np.int8, _np.int16, _np.int32, _np.int64
uint8, uint16, uint32, uint64 = _np.uint8, _np.uint16, _np.uint32, _np.uint64
float16, float32, float64 = _np.float16, _np.float32, _np.float64
float128 = getattr(_np, 'float128', _np.longdouble)
longdouble = _np.longdouble
complex64, complex128 = _np.complex64, _np.complex128
bool_, object_, str_ = _np.bool_, _np.object_, _np.str_
intp, uintp = _np.intp, _np.uintp
pi, e, inf, nan, newaxis = _np.pi, _np.e, _np.inf, _np.nan, None
dtype = _np.dtype
_D = _np.dtype
_I64, _U64, _F64, _BOOL, _OBJ, _C128 = _D('int64'), _D('uint64'), _D('float64'), _D('bool'), _D('O'), _D('complex128')


def _real_type(t):
    """map shim classes / strings / builtins to something real NumPy understands"""
    if t is INT_SHIM:
        return int
    if t is FLOAT_SHIM:
        return float
    if t is STR_SHIM:
        return str
    if t is BOOL_SHIM:
        return bool
    if t is COMPLEX_SHIM:
        return complex
    return t


def as_dtype(t):
    t = _real_type(t)
    if _isinstance(t, _D):
        return t
    return _D(t)


def issubdtype(a, b):
    return _np.issubdtype(_real_type(a), _real_type(b))


def result_type(*a):
    return _np.result_type(*[_real_type(x) if not _isinstance(x, ndarray) else x.dtype for x in a])


def iinfo(t):
    return _np.iinfo(as_dtype(t))


def finfo(t):
    return _np.finfo(as_dtype(t))


# ------------------------------------------------------------------------------------------ helpers

def _is_symcell(v):
    return _isinstance(v, (SInt, SFloat, SBool, SComplex, Poison, S.SStr, LazyLog2))


def _int_bounds(dt):
    ii = _np.iinfo(dt)
    return int(ii.min), int(ii.max)


class LazyLog2(Poison):
    """log2(x) kept symbolic; only ceil() can consume it"""
    __slots__ = ('arg',)

    def __init__(self, arg):
        Poison.__init__(self, 'log2 of a symbolic value used other than through ceil()')
        self.arg = arg


def wrap_int(v, dt):
    """result of C integer arithmetic in dtype dt: the exact value reduced modulo 2^bits (silent wrap-around)"""
    if _isinstance(v, Poison) or not _isinstance(v, (int, SInt)) or _isinstance(v, bool):
        return v
    lo, hi = _int_bounds(dt)
    vlo, vhi = T.irange(v)
    if lo <= vlo and vhi <= hi:
        return v
    bits = dt.itemsize * 8
    w = T.imod_pow2(v, bits)
    if dt.kind == 'u':
        return w
    return T.iite(T.icmp(w, 1 << (bits - 1), '<'), w, T.isub(w, 1 << bits))


def cast_cell(v, dt, src=None):
    """NumPy cast of one cell to dtype dt (src: source dtype or None for Python objects)"""
    k = dt.kind
    if k == 'O':
        return v
    if _isinstance(v, Poison):
        return v
    if src is not None and src == dt:
        return v
    if k in 'iu':
        if _isinstance(v, (SFloat, float)):
            if _isinstance(v, float):
                if v != v or v in (float('inf'), float('-inf')):
                    return Poison('cast of non-finite float to integer')
            v = T.float_to_int(v)
            lo, hi = _int_bounds(dt)
            r = T.refine(v, lo, hi) if _isinstance(v, SInt) else (v if lo <= v <= hi else None)
            if r is None:
                return Poison('float -> %s cast out of range (undefined in C)' % dt)
            return r
        if _isinstance(v, (bool, SBool)):
            return T.bool_to_int(v)
        if _isinstance(v, (complex, SComplex)):
            return cast_cell(v.real, dt)
        if _isinstance(v, (int, SInt)):
            lo, hi = _int_bounds(dt)
            vlo, vhi = T.irange(v)
            if lo <= vlo and vhi <= hi:
                return v
            if src is None or src.kind == 'O':
                # Python int object -> C integer: must fit
                ok = T.b_and(T.icmp(v, lo, '>='), T.icmp(v, hi, '<='))
                if not _b.bool(ok):
                    raise OverflowError('Python int too large to convert to C long')
                return T.refine_or(v, lo, hi)
            bits = dt.itemsize * 8
            w = T.imod_pow2(v, bits)
            if k == 'u':
                return w
            return T.iite(T.icmp(w, 1 << (bits - 1), '<'), w, T.isub(w, 1 << bits))
        if _isinstance(v, (str, S.SStr)):
            return S.parse_int(v, 10)
        raise OutOfModel('cast %r -> %s' % (type(v), dt))
    if k == 'f':
        if _isinstance(v, (bool, SBool)):
            v = T.bool_to_int(v)
        if _isinstance(v, (int, SInt)):
            v = T.int_to_float(v)
        if _isinstance(v, (complex, SComplex)):
            v = v.real
        if _isinstance(v, (float, SFloat, Poison)):
            if dt.itemsize == 8 or _isinstance(v, Poison):
                return v
            if _isinstance(v, float):
                return float(_np.array(v).astype(dt))
            return Poison('symbolic cast to %s' % dt)
        raise OutOfModel('cast %r -> %s' % (type(v), dt))
    if k == 'b':
        if _isinstance(v, (bool, SBool)):
            return v
        if _isinstance(v, (int, SInt)):
            return T.icmp(v, 0, '!=')
        if _isinstance(v, (float, SFloat)):
            return T.fcmp(v, 0, '!=')
        raise OutOfModel('cast %r -> bool' % (type(v),))
    if k == 'c':
        if _isinstance(v, (complex, SComplex)):
            return v
        return T.mkc(cast_cell(v, _F64), 0.0)
    if k == 'U':
        if _isinstance(v, (str, S.SStr)):
            return v
        if not _is_symcell(v):
            return str(v)
        raise OutOfModel('symbolic value -> str cast')
    raise OutOfModel('cast to %s' % dt)


def _pyval(v, dt):
    """what arr.item()/tolist()/astype(object) hand out for a cell"""
    return v


# ------------------------------------------------------------------------------------------ the array class

class ndarray:
    """cells live in a shared store so that views (indexing, .T, reshape) write through like NumPy views"""
    __slots__ = ('_store', '_idx', '_shape', 'dtype', '_scalar', '__weakref__')
    __array_ufunc__ = None          # make real NumPy objects defer to us
    __array_priority__ = 1000

    def __init__(self, store, idx, shape, dt, scalar=False):
        self._store, self._idx, self._shape, self.dtype, self._scalar = store, idx, tuple(shape), dt, scalar

    # ---- construction helpers
    @staticmethod
    def _new(cells, shape, dt, scalar=False):
        cells = list(cells)
        return ndarray(cells, list(range(_b.len(cells))), shape, dt, scalar)

    @staticmethod
    def _from_real(r):
        if _isinstance(r, _np.generic):
            return ndarray._new([r.item()], (), r.dtype, True)
        a = _np.asarray(r)
        if a.dtype.kind in 'OSV' or a.dtype.kind == 'U':
            cells = [a[ix] for ix in _np.ndindex(a.shape)] if a.dtype.kind == 'O' else [str(x) for x in a.reshape(-1).tolist()]
        else:
            cells = a.reshape(-1).tolist()
        return ndarray._new(cells, a.shape, a.dtype, False)

    def _cells(self):
        st = self._store
        return [st[i] for i in self._idx]

    def _concrete(self):
        st = self._store
        for i in self._idx:
            if _is_symcell(st[i]):
                return False
        return True

    def _sx_symbolic(self):
        return not self._concrete()

    def _sx_eval(self, model):
        cells = [T.eval_under(model, c) for c in self._cells()]
        if self._scalar or self._shape == ():
            return cells[0]
        return _nest(cells, self._shape)

    def _sx_scalar_value(self):
        if self.size != 1:
            raise TypeError('only length-1 arrays can be converted to Python scalars')
        return self._store[self._idx[0]]

    def _real(self):
        cells = self._cells()
        for c in cells:
            if _is_symcell(c):
                raise OutOfModel('symbolic array reached real NumPy')
        if self.dtype.kind == 'O':
            a = _np.empty(_b.len(cells), dtype=object)
            for i, c in enumerate(cells):
                a[i] = c
            a = a.reshape(self._shape)
        else:
            a = _np.array(cells, dtype=self.dtype).reshape(self._shape)
        if self._scalar:
            return a[()]
        return a

    def _like(self, cells, shape=None, dt=None, scalar=False):
        cells = list(cells)
        n = _b.len(cells)
        if (shape is None or tuple(shape) == self._shape) and _b.len(self._shape) >= 2 and n == _b.len(self._idx) and not scalar:
            # element-wise results, casts and order='K' copies keep the memory layout of their operand (a transposed view stays
            # column-major): the new store is filled in the memory order of `self`
            order = sorted(range(n), key=lambda i: self._idx[i])
            if order != list(range(n)):
                store, idx = [None] * n, [0] * n
                for pos, i in enumerate(order):
                    store[pos], idx[i] = cells[i], pos
                return ndarray(store, idx, self._shape, self.dtype if dt is None else dt, False)
        return ndarray._new(cells, self._shape if shape is None else shape, self.dtype if dt is None else dt, scalar)

    def _order_positions(self, order):
        """positions into the logical (C-order) cell list in the traversal order NumPy uses for order = 'C' / 'F' / 'A' / 'K'"""
        n = self.size
        nd = _b.len(self._shape)
        if order in (None, 'C', 'c') or nd < 2:
            return list(range(n))
        L = _np.arange(n).reshape(self._shape)
        if order in ('F', 'f'):
            return L.T.reshape(-1).tolist()
        fl = self.flags
        if order in ('A', 'a'):
            return L.T.reshape(-1).tolist() if (fl.f_contiguous and not fl.c_contiguous) else list(range(n))
        if order not in ('K', 'k'):
            raise ValueError("order must be one of 'C', 'F', 'A', or 'K'")
        M = _np.array(self._idx, dtype=_np.int64).reshape(self._shape)          # memory position of every logical cell
        strides = []
        for ax in range(nd):
            if self._shape[ax] < 2:
                strides.append(0)
                continue
            d = _np.diff(M, axis=ax)
            if not (d == d.reshape(-1)[0]).all():
                raise OutOfModel('memory-order traversal of a view that is not strided')
            strides.append(int(d.reshape(-1)[0]))
        perm = sorted(range(nd), key=lambda ax: -_b.abs(strides[ax]))            # (stable: ties keep the C order)
        return L.transpose(perm).reshape(-1).tolist()

    # ---- basic attributes
    @property
    def flags(self):
        import types
        base = self._idx[0] if self._idx else 0
        c = self._idx == list(range(base, base + _b.len(self._idx)))
        fi = _np.array(self._idx, dtype=_np.int64).reshape(self._shape).T.reshape(-1).tolist() if self._idx else []
        f = fi == list(range(base, base + _b.len(fi)))
        own = c and _b.len(self._store) == _b.len(self._idx)
        return types.SimpleNamespace(writeable=True, c_contiguous=c, f_contiguous=f, owndata=own, contiguous=c, forc=c or f, fnc=f and not c,
                                     aligned=True, writebackifcopy=False)

    shape = property(lambda s: s._shape)
    ndim = property(lambda s: _b.len(s._shape))
    size = property(lambda s: _b.len(s._idx))
    itemsize = property(lambda s: s.dtype.itemsize)
    flat = property(lambda s: iter(s._cells()))

    @property
    def T(self):
        return transpose(self)

    @property
    def real(self):
        if self.dtype.kind == 'c':
            return self._like([c.real for c in self._cells()], dt=_F64, scalar=self._scalar)
        if self.dtype.kind == 'O':
            return self._like([c.real if _isinstance(c, (complex, SComplex)) else c for c in self._cells()], scalar=self._scalar)
        return self

    @property
    def imag(self):
        if self.dtype.kind == 'c':
            return self._like([c.imag for c in self._cells()], dt=_F64, scalar=self._scalar)
        if self.dtype.kind == 'O':
            return self._like([c.imag if _isinstance(c, (complex, SComplex)) else 0 for c in self._cells()], scalar=self._scalar)
        return self._like([cast_cell(0, self.dtype) for _ in self._idx], scalar=self._scalar)

    def __repr__(self):
        return 'sx.ndarray(%r, shape=%r, dtype=%s%s)' % (self._cells(), self._shape, self.dtype, ', scalar' if self._scalar else '')

    def __str__(self):
        if self._concrete():
            return str(self._real())
        return repr(self)

    def __format__(self, spec):
        if self._concrete():
            return format(self._real(), spec)
        raise OutOfModel('symbolic array reached str.format')

    def __len__(self):
        if not self._shape:
            raise TypeError('len() of unsized object')
        return self._shape[0]

    def __iter__(self):
        if not self._shape:
            raise TypeError('iteration over a 0-d array')
        if _b.len(self._shape) == 1 and self.dtype.kind in 'UO':
            return iter(self._cells())            # (np.str_ scalars are strs; object arrays hand out the objects)
        return iter([self[i] for i in range(self._shape[0])])

    def __deepcopy__(self, memo):
        import copy
        cells = self._cells()
        if self.dtype.kind == 'O':
            cells = [copy.deepcopy(c, memo) for c in cells]
        return self._like(cells, scalar=self._scalar)

    def __copy__(self):
        return self._like(self._cells(), scalar=self._scalar)

    def copy(self, order='C'):
        if order in ('K', 'k', 'A', 'a') or _b.len(self._shape) < 2:
            return self._like(self._cells(), scalar=self._scalar)
        if order in ('F', 'f'):
            return transpose(transpose(self).copy('C'))
        return ndarray._new(self._cells(), self._shape, self.dtype, self._scalar)

    __hash__ = None

    # ---- scalar protocol (concrete values only; symbolic ones go through the shims)
    def _one(self):
        if self.size != 1:
            raise TypeError('only length-1 arrays can be converted to Python scalars')
        return self._store[self._idx[0]]

    def __bool__(self):
        if self.size != 1:
            raise ValueError('The truth value of an array with more than one element is ambiguous. Use a.any() or a.all()')
        v = self._one()
        return _b.bool(v)

    def __index__(self):
        v = self._one()
        if self.dtype.kind not in 'iu' or self._shape != ():
            raise TypeError('only integer scalar arrays can be converted to a scalar index')
        if _is_symcell(v):
            raise OutOfModel('symbolic integer used as index')
        return int(v)

    def __int__(self):
        v = self._one()
        if _is_symcell(v):
            raise OutOfModel('int() of symbolic array reached C code')
        return int(v)

    def __float__(self):
        v = self._one()
        if _is_symcell(v):
            raise OutOfModel('float() of symbolic array reached C code')
        return float(v)

    def __complex__(self):
        v = self._one()
        if _is_symcell(v):
            raise OutOfModel('complex() of symbolic array reached C code')
        return complex(v)

    def __array__(self, *a, **k):
        return _np.asarray(self._real(), *a)

    # ---- conversion
    def astype(self, t, copy=True, **kw):
        dt = as_dtype(t)
        if not copy and dt == self.dtype and not self._scalar:
            return self                      # (NumPy hands back the array itself: no new buffer)
        if self._concrete():
            return wrap(self._real().astype(dt))
        return self._like([cast_cell(c, dt, self.dtype) for c in self._cells()], dt=dt, scalar=self._scalar)

    def item(self, *a):
        if not a:
            if self.size != 1:
                raise ValueError('can only convert an array of size 1 to a Python scalar')
            return self._one()
        ix = a[0] if _b.len(a) == 1 else tuple(a)
        if _isinstance(ix, tuple):
            fl = int(_np.arange(self.size).reshape(self._shape)[ix])
        else:
            fl = range(self.size)[ix]
        return self._store[self._idx[fl]]

    def tolist(self):
        cells = self._cells()
        if not self._shape:
            return cells[0]
        return _nest(cells, self._shape)

    def flatten(self, order='C'):
        cells = self._cells()
        return ndarray._new([cells[i] for i in self._order_positions(order)], (self.size,), self.dtype)

    def ravel(self, order='C'):
        pos = self._order_positions(order)
        if pos == list(range(self.size)) and self.flags.c_contiguous:
            return ndarray(self._store, list(self._idx), (self.size,), self.dtype)          # a view
        cells = self._cells()
        return ndarray._new([cells[i] for i in pos], (self.size,), self.dtype)               # (NumPy copies when it has to)

    def reshape(self, *shape, **kw):
        if 'shape' in kw:
            shape = (kw['shape'],)
        if _b.len(shape) == 1 and not _isinstance(shape[0], int):
            shape = shape[0]
        shape = tuple(int(s) for s in shape) if not _isinstance(shape, int) else (shape,)
        I = _np.arange(self.size).reshape(self._shape).reshape(shape)
        return ndarray(self._store, [self._idx[i] for i in I.reshape(-1).tolist()], I.shape, self.dtype)

    def transpose(self, *axes):
        if _b.len(axes) == 1 and (axes[0] is None or _isinstance(axes[0], (tuple, list))):
            axes = axes[0]
        return transpose(self, axes if axes else None)

    def squeeze(self, axis=None):
        I = _np.arange(self.size).reshape(self._shape).squeeze(axis)
        return ndarray(self._store, [self._idx[i] for i in I.reshape(-1).tolist()], I.shape, self.dtype)

    def fill(self, v):
        for i in self._idx:
            self._store[i] = cast_cell(v, self.dtype)

    def view(self, *a, **k):
        dt = k.get('dtype', a[0] if a else None)
        if dt is None:
            return ndarray(self._store, list(self._idx), self._shape, self.dtype, self._scalar)
        dt = as_dtype(dt)
        if dt == self.dtype:
            return ndarray(self._store, list(self._idx), self._shape, self.dtype, self._scalar)
        if dt.kind in 'iu' and self.dtype.kind in 'iu' and dt.itemsize == self.dtype.itemsize:
            # same bytes read with the other signedness: the cells are shared, so every value must mean the same under both dtypes
            lo, hi = _int_bounds(dt)
            for c in self._cells():
                vlo, vhi = T.irange(c) if _isinstance(c, (int, SInt)) else (None, None)
                if vlo is None or vlo < lo or vhi > hi:
                    ok = T.b_and(T.icmp(c, lo, '>='), T.icmp(c, hi, '<='))
                    if not (ok is True or (ok is not False and T.EX is not None and T.EX.implied(ok))):
                        raise OutOfModel('view(%s) of a %s array whose values do not fit both dtypes' % (dt, self.dtype))
            return ndarray(self._store, list(self._idx), self._shape, dt, self._scalar)
        raise OutOfModel('view(%s) of a %s array' % (dt, self.dtype))

    # ---- indexing
    def _sel(self, index):
        I = _np.arange(self.size).reshape(self._shape)
        index = _unwrap_index(index)
        return I[index]

    def __getitem__(self, index):
        J = self._sel(index)
        if _isinstance(J, _np.ndarray):
            return ndarray(self._store, [self._idx[i] for i in J.reshape(-1).tolist()], J.shape, self.dtype)
        v = self._store[self._idx[int(J)]]
        if self.dtype.kind == 'O':
            return v
        return ndarray._new([v], (), self.dtype, True)

    def __setitem__(self, index, value):
        J = self._sel(index)
        tgt = J.reshape(-1).tolist() if _isinstance(J, _np.ndarray) else [int(J)]
        tshape = J.shape if _isinstance(J, _np.ndarray) else ()
        if _isinstance(value, ndarray) and not (self.dtype.kind == 'O' and value.dtype.kind == 'O' and False):
            vc, vs, vdt = value._cells(), value._shape, value.dtype
        elif _isinstance(value, (list, tuple)):
            va = array(value)
            vc, vs, vdt = va._cells(), va._shape, va.dtype
        else:
            vc, vs, vdt = [value], (), None
        K = _np.broadcast_to(_np.arange(_b.len(vc)).reshape(vs), tshape).reshape(-1).tolist()
        for t, k in zip(tgt, K):
            self._store[self._idx[t]] = cast_cell(vc[k], self.dtype, vdt)

    # ---- arithmetic
    def __add__(s, o): return _binop('add', s, o)
    def __radd__(s, o): return _binop('add', o, s)
    def __sub__(s, o): return _binop('sub', s, o)
    def __rsub__(s, o): return _binop('sub', o, s)
    def __mul__(s, o): return _binop('mul', s, o)
    def __rmul__(s, o): return _binop('mul', o, s)
    def __truediv__(s, o): return _binop('truediv', s, o)
    def __rtruediv__(s, o): return _binop('truediv', o, s)
    def __floordiv__(s, o): return _binop('floordiv', s, o)
    def __rfloordiv__(s, o): return _binop('floordiv', o, s)
    def __mod__(s, o): return _binop('mod', s, o)
    def __rmod__(s, o): return _binop('mod', o, s)
    def __pow__(s, o): return _binop('pow', s, o)
    def __rpow__(s, o): return _binop('pow', o, s)
    def __and__(s, o): return _binop('and', s, o)
    def __rand__(s, o): return _binop('and', o, s)
    def __or__(s, o): return _binop('or', s, o)
    def __ror__(s, o): return _binop('or', o, s)
    def __xor__(s, o): return _binop('xor', s, o)
    def __rxor__(s, o): return _binop('xor', o, s)
    def __lshift__(s, o): return _binop('lshift', s, o)
    def __rlshift__(s, o): return _binop('lshift', o, s)
    def __rshift__(s, o): return _binop('rshift', s, o)
    def __rrshift__(s, o): return _binop('rshift', o, s)
    def __lt__(s, o): return _binop('lt', s, o)
    def __le__(s, o): return _binop('le', s, o)
    def __gt__(s, o): return _binop('gt', s, o)
    def __ge__(s, o): return _binop('ge', s, o)
    def __eq__(s, o): return _binop('eq', s, o)
    def __ne__(s, o): return _binop('ne', s, o)
    __iadd__, __isub__, __imul__ = __add__, __sub__, __mul__
    def __neg__(s): return _unop('neg', s)
    def __pos__(s): return _unop('pos', s)
    def __abs__(s): return _unop('abs', s)
    def __invert__(s): return _unop('invert', s)

    # in-place operators mutate the shared store (views and the owner see the change), like NumPy
    def _inplace(s, op, o):
        r = _binop(op, s, o)
        if r is NotImplemented:
            return r
        rdt = r.dtype if _isinstance(r, ndarray) else None
        if rdt is not None and rdt != s.dtype and not _np.can_cast(rdt, s.dtype, 'same_kind'):
            raise TypeError("Cannot cast ufunc '%s' output from %s to %s with casting rule 'same_kind'" % (op, rdt, s.dtype))
        rc = r._cells() if _isinstance(r, ndarray) else [r]
        if _b.len(rc) != _b.len(s._idx):
            if _b.len(rc) == 1:
                rc = rc * _b.len(s._idx)
            else:
                raise ValueError('non-broadcastable output operand')
        for i, c in zip(s._idx, rc):
            s._store[i] = cast_cell(c, s.dtype, rdt)
        return s

    def __iadd__(s, o): return s._inplace('add', o)
    def __isub__(s, o): return s._inplace('sub', o)
    def __imul__(s, o): return s._inplace('mul', o)
    def __ifloordiv__(s, o): return s._inplace('floordiv', o)
    def __imod__(s, o): return s._inplace('mod', o)
    def __itruediv__(s, o): return s._inplace('truediv', o)
    def __iand__(s, o): return s._inplace('and', o)
    def __ior__(s, o): return s._inplace('or', o)
    def __ixor__(s, o): return s._inplace('xor', o)
    def __ilshift__(s, o): return s._inplace('lshift', o)
    def __irshift__(s, o): return s._inplace('rshift', o)
    def __matmul__(s, o): return dot(s, o)

    def __round__(s, n=None):
        return around(s) if n is None else around(s, n)

    # ---- methods mirroring functions
    def all(self, axis=None, **kw): return all(self, axis=axis)
    def any(self, axis=None, **kw): return any(self, axis=axis)
    def max(self, axis=None, **kw): return max(self, axis=axis)
    def min(self, axis=None, **kw): return min(self, axis=axis)
    def sum(self, axis=None, **kw): return sum(self, axis=axis, **kw)
    def prod(self, axis=None, **kw): return prod(self, axis=axis, **kw)
    def cumsum(self, axis=None, **kw): return cumsum(self, axis=axis, **kw)
    def cumprod(self, axis=None, **kw): return cumprod(self, axis=axis, **kw)
    def dot(self, o): return dot(self, o)
    def trace(self, *a, **k): return trace(self, *a, **k)
    def diagonal(self, *a, **k): return diagonal(self, *a, **k)
    def clip(self, a_min=None, a_max=None, **k): return clip(self, a_min, a_max)
    def conjugate(self): return conjugate(self)
    conj = conjugate
    def nonzero(self): return nonzero(self)
    def mean(self, *a, **k): return mean(self, *a, **k)
    def round(self, decimals=0): return around(self, decimals)
    def argmax(self, axis=None, **k): return argmax(self, axis=axis)
    def argmin(self, axis=None, **k): return argmin(self, axis=axis)
    def is_integer(self): return self._one().is_integer() if _isinstance(self._one(), (float, SFloat)) else True

    def sort(self, axis=-1, **kw):
        r = sort(self, axis=axis)
        for i, c in zip(self._idx, r._cells()):
            self._store[i] = c

    def bit_length(self):
        return T.ibitlen(self._one())


def _nest(cells, shape):
    if _b.len(shape) == 1:
        return list(cells)
    n = shape[0]
    k = _b.len(cells) // n if n else 0
    return [_nest(cells[i * k:(i + 1) * k], shape[1:]) for i in range(n)]


def _unwrap_index(index):
    if _isinstance(index, tuple):
        return tuple(_unwrap_index(i) for i in index)
    if _isinstance(index, ndarray):
        return index._real()
    if _isinstance(index, list):
        return [_unwrap_index(i) for i in index]
    if _isinstance(index, (SInt, SBool)):
        raise OutOfModel('symbolic index')
    return index


def wrap(r):
    """real NumPy result -> overlay value"""
    if _isinstance(r, (_np.ndarray, _np.generic)):
        return ndarray._from_real(r)
    if _isinstance(r, tuple):
        return tuple(wrap(x) for x in r)
    if _isinstance(r, list):
        return [wrap(x) for x in r]
    return r


def unwrap(x):
    """overlay value -> real NumPy argument (only for fully concrete data)"""
    if _isinstance(x, ndarray):
        return x._real()
    if _isinstance(x, (SInt, SFloat, SBool, SComplex, Poison, S.SStr)):
        raise OutOfModel('symbolic value reached real NumPy')
    if _isinstance(x, tuple):
        return tuple(unwrap(v) for v in x)
    if _isinstance(x, list):
        return [unwrap(v) for v in x]
    if _isinstance(x, dict):
        return {k: unwrap(v) for k, v in x.items()}
    if _isinstance(x, type):
        return _real_type(x)
    return x


def _all_concrete(*xs):
    for x in xs:
        if _isinstance(x, ndarray):
            if not x._concrete():
                return False
        elif _isinstance(x, (SInt, SFloat, SBool, SComplex, Poison, S.SStr)):
            return False
        elif _isinstance(x, (list, tuple)):
            if not _all_concrete(*x):
                return False
        elif _isinstance(x, dict):
            if not _all_concrete(*x.values()):
                return False
    return True


def _has_foreign(xs):
    """an argument that implements the NumPy dispatch protocols (an Fxp)"""
    for x in xs:
        if not _isinstance(x, ndarray) and not _isinstance(x, (SInt, SFloat, SBool, SComplex, Poison, S.SStr)) and \
                (getattr(type(x), '__array_function__', None) is not None or getattr(type(x), '__array_ufunc__', None) is not None):
            return x
        if _isinstance(x, (list, tuple)):
            r = _has_foreign(x)
            if r is not None:
                return r
    return None


def _dispatch(kind):
    """decorator: honour __array_function__ / __array_ufunc__ of foreign arguments like NumPy does"""
    def deco(fn):
        def wrapper(*args, **kwargs):
            f = _has_foreign(args)
            if f is None and 'out' in kwargs:
                f = _has_foreign([kwargs['out']] if not _isinstance(kwargs['out'], tuple) else kwargs['out'])
            if f is not None:
                if kind == 'ufunc' and getattr(type(f), '__array_ufunc__', None) is not None:
                    return f.__array_ufunc__(wrapper, '__call__', *args, **kwargs)
                if getattr(type(f), '__array_function__', None) is not None:
                    return f.__array_function__(wrapper, (type(f),), args, kwargs)
            return fn(*args, **kwargs)
        wrapper.__name__ = fn.__name__
        wrapper.__qualname__ = fn.__name__
        wrapper._sx_impl = fn
        return wrapper
    return deco


# ------------------------------------------------------------------------------------------ creation

def _discover(obj, leaves, depth=0):
    """collect leaves and shape of a nested sequence"""
    if _isinstance(obj, ndarray):
        if obj._shape == ():
            leaves.append((obj._one(), obj.dtype))
            return ()
        for c in obj._cells():
            leaves.append((c, obj.dtype))
        return obj._shape
    if _isinstance(obj, (list, tuple)):
        shapes = [_discover(o, leaves, depth + 1) for o in obj]
        if not shapes:
            return (0,)
        if _b.any(s != shapes[0] for s in shapes):
            raise ValueError('setting an array element with a sequence. The requested array has an inhomogeneous shape')
        return (_b.len(obj),) + shapes[0]
    if hasattr(obj, '__array__') and not _isinstance(obj, (SInt, SFloat, SBool, SComplex, Poison, S.SStr)):
        return _discover(obj.__array__(), leaves, depth)
    leaves.append((obj, None))
    return ()


def _leaf_dtype(leaves):
    """dtype NumPy would discover for python leaves (forks on integer magnitude when it matters)"""
    kinds = set()
    typed = []
    ints = []
    for v, dt in leaves:
        if dt is not None:
            typed.append(dt)
            continue
        if _isinstance(v, (bool, SBool)):
            kinds.add('b')
        elif _isinstance(v, (int, SInt)):
            kinds.add('i')
            ints.append(v)
        elif _isinstance(v, (float, SFloat)):
            kinds.add('f')
        elif _isinstance(v, (complex, SComplex)):
            kinds.add('c')
        elif _isinstance(v, (str, S.SStr)):
            kinds.add('U')
        elif _isinstance(v, Poison):
            kinds.add('f')
        elif v is None:
            kinds.add('O')
        else:
            kinds.add('O')
    if 'O' in kinds:
        return _OBJ
    if 'U' in kinds:
        if kinds - {'U'} or typed:
            raise OutOfModel('mixed string/number array')
        return _D('U1')
    idt = None
    if ints:
        # int64 if everything fits; uint64 if every leaf is in [2^63, 2^64); float64 for a mix; object beyond
        big = T.b_or(*[T.icmp(v, 1 << 63, '>=') for v in ints])
        small = T.b_or(*[T.icmp(v, -(1 << 63), '<') for v in ints])
        huge = T.b_or(*[T.icmp(v, 1 << 64, '>=') for v in ints])
        if _b.bool(small) or _b.bool(huge):
            return _OBJ
        if _b.bool(big):
            # every leaf is typed on its own (int64 below 2^63, uint64 from there) and the types are promoted:
            # uint64 only if *all* leaves are >= 2^63, otherwise int64 (+) uint64 -> float64 (np.array([1, 2**63]) is float64)
            allbig = T.b_and(*[T.icmp(v, 1 << 63, '>=') for v in ints])
            idt = _U64 if _b.bool(allbig) else _F64
        else:
            idt = _I64
    cands = list(typed)
    if idt is not None:
        cands.append(idt)
    if 'f' in kinds:
        if idt is _U64 or idt is _OBJ:
            pass
        cands.append(_F64)
    if 'c' in kinds:
        cands.append(_C128)
    if 'b' in kinds:
        cands.append(_BOOL)
    if not cands:
        return _F64
    r = cands[0]
    for c in cands[1:]:
        r = _np.promote_types(r, c)
    return r


def array(obj, dtype=None, copy=True, **kw):      # (np.array / np.asarray are not dispatched through __array_function__; they honour __array__)
    if dtype is not None:
        dtype = as_dtype(dtype)
    if _isinstance(obj, ndarray):
        r = obj._like(obj._cells())
        if dtype is not None and dtype != r.dtype:
            r = r.astype(dtype)
        return r
    if _all_concrete(obj) and _has_foreign([obj]) is None and not (hasattr(obj, '__array__') and not _isinstance(obj, ndarray)):
        try:
            return wrap(_np.array(unwrap(obj), dtype=dtype))
        except OutOfModel:
            pass
    leaves = []
    shape = _discover(obj, leaves)
    dt = dtype if dtype is not None else _leaf_dtype(leaves)
    cells = [cast_cell(v, dt, src) for v, src in leaves]
    return ndarray._new(cells, shape, dt)


def asarray(obj, dtype=None, **kw):
    if _isinstance(obj, ndarray) and not obj._scalar and (dtype is None or as_dtype(dtype) == obj.dtype):
        return obj
    return array(obj, dtype=dtype)


asanyarray = asarray
ascontiguousarray = asarray


def asfortranarray(a, dtype=None, **kw):
    a = array(a, dtype=dtype)
    return a.copy('F') if _b.len(a._shape) >= 2 else a


def array_equal(a1, a2, equal_nan=False):
    a1 = a1 if _isinstance(a1, ndarray) else asarray(a1)
    a2 = a2 if _isinstance(a2, ndarray) else asarray(a2)
    if a1.shape != a2.shape:
        return False
    r = all(equal(a1, a2))
    if _isinstance(r, ndarray):
        r = r._one()
    return r


def copyto(dst, src, casting='same_kind', where=True):
    if where is not True:
        raise OutOfModel('np.copyto with a mask')
    dst[...] = src


def empty(shape, dtype=float, **kw):
    return wrap(_np.zeros(shape, dtype=as_dtype(dtype)) if as_dtype(dtype).kind != 'O' else _np.empty(shape, dtype=object))


def zeros(shape, dtype=float, **kw):
    return wrap(_np.zeros(shape, dtype=as_dtype(dtype)))


def ones(shape, dtype=float, **kw):
    return wrap(_np.ones(shape, dtype=as_dtype(dtype)))


def full(shape, fill_value, dtype=None, **kw):
    r = zeros(shape, dtype if dtype is not None else array(fill_value).dtype)
    r.fill(fill_value)
    return r


def ones_like(a, dtype=None, **kw):
    a = asarray(a)
    return ones(a.shape, dtype if dtype is not None else a.dtype)


def zeros_like(a, dtype=None, **kw):
    a = asarray(a)
    return zeros(a.shape, dtype if dtype is not None else a.dtype)


def empty_like(a, dtype=None, **kw):
    return zeros_like(a, dtype)


def arange(*a, **k):
    return wrap(_np.arange(*unwrap(a), **unwrap(k)))


def ndindex(*shape):
    return _np.ndindex(*unwrap(shape))


def shape(a):
    return asarray(a).shape


def ndim(a):
    return asarray(a).ndim


def size(a):
    return asarray(a).size


def isscalar(x):
    if _isinstance(x, ndarray):
        return x._scalar
    return _isinstance(x, (int, float, complex, str, bool, SInt, SFloat, SBool, SComplex))


def iscomplexobj(x):
    if _isinstance(x, ndarray):
        return x.dtype.kind == 'c'
    if _isinstance(x, (complex, SComplex)):
        return True
    if _isinstance(x, (list, tuple)):
        return asarray(x).dtype.kind == 'c'
    return False


def isrealobj(x):
    return not iscomplexobj(x)


# ------------------------------------------------------------------------------------------ element-wise operators

_PYOPS = {'add': _op.add, 'sub': _op.sub, 'mul': _op.mul, 'truediv': _op.truediv, 'floordiv': _op.floordiv, 'mod': _op.mod,
          'pow': _op.pow, 'and': _op.and_, 'or': _op.or_, 'xor': _op.xor, 'lshift': _op.lshift, 'rshift': _op.rshift,
          'lt': _op.lt, 'le': _op.le, 'gt': _op.gt, 'ge': _op.ge, 'eq': _op.eq, 'ne': _op.ne}
_CMPSYM = {'lt': '<', 'le': '<=', 'gt': '>', 'ge': '>=', 'eq': '==', 'ne': '!='}
_UFUNC_OF = {}     # opname -> overlay ufunc-like function (filled below)


def _is_pyscalar(x):
    return _isinstance(x, (bool, int, float, complex, SInt, SFloat, SBool, SComplex, Poison))


def _weak_rep(x):
    if _isinstance(x, (bool, SBool)):
        return False
    if _isinstance(x, (int, SInt)):
        return 0
    if _isinstance(x, (float, SFloat, Poison)):
        return 0.0
    return 0j


def _operand(x):
    """-> (cells, shape, dtype-or-None (weak python scalar), is0d)"""
    if _isinstance(x, ndarray):
        return x._cells(), x._shape, x.dtype, x._shape == ()
    if _is_pyscalar(x):
        return [x], (), None, True
    if _isinstance(x, (list, tuple)):
        a = array(x)
        return a._cells(), a._shape, a.dtype, False
    if _isinstance(x, (str, S.SStr)):
        return [x], (), _D('U1'), True
    if x is None:
        return [x], (), _OBJ, True
    if _isinstance(x, (_np.generic, _np.ndarray)):
        a = ndarray._from_real(x)              # a real NumPy scalar / array built by the lifted code from concrete values (np.uint64(1 << n))
        return a._cells(), a._shape, a.dtype, a._shape == ()
    raise TypeError('unsupported operand for array operation: %r' % (type(x),))


def _check_weak_int(y, dt):
    """a python int combined with an integer array must fit the dtype (NEP 50)"""
    lo, hi = _int_bounds(dt)
    ylo, yhi = T.irange(y)
    if lo <= ylo and yhi <= hi:
        return
    ok = T.b_and(T.icmp(y, lo, '>='), T.icmp(y, hi, '<='))
    if not _b.bool(ok):
        if dt.kind == 'u':
            raise OverflowError('Python integer out of bounds for %s' % dt)
        raise OverflowError('Python int too large to convert to C long')


def _binop(op, a, b):
    # foreign operand (Fxp): let its __array_ufunc__ decide, as real ndarray operators do
    for x in (a, b):
        if not _isinstance(x, ndarray) and not _is_pyscalar(x) and getattr(type(x), '__array_ufunc__', None) is not None \
                and not _isinstance(x, (list, tuple, str, S.SStr)):
            return x.__array_ufunc__(_UFUNC_OF[op], '__call__', a, b)
    if _all_concrete(a, b):
        try:
            ra, rb = unwrap(a), unwrap(b)
        except OutOfModel:
            ra = rb = None
        if ra is not None or rb is not None:
            import warnings
            with warnings.catch_warnings():
                warnings.simplefilter('ignore')
                r = _PYOPS[op](ra, rb)
            if r is NotImplemented:
                return r
            return wrap(r)
    ca, sa, da, za = _operand(a)
    cb, sb, db, zb = _operand(b)
    cmp = op in _CMPSYM
    # result dtype
    if da is None and db is None:
        raise TypeError('no array operand')
    if (da is not None and da.kind == 'O') or (db is not None and db.kind == 'O'):
        dt = _OBJ
    else:
        ra_ = da if da is not None else _weak_rep(ca[0])
        rb_ = db if db is not None else _weak_rep(cb[0])
        dt = _np.result_type(ra_, rb_)
        if op == 'truediv' and dt.kind in 'iub':
            dt = _F64
        if op in ('and', 'or', 'xor', 'lshift', 'rshift') and dt.kind in 'fc':
            raise TypeError("ufunc '%s' not supported for the input types" % op)
    if dt.kind in 'iu' and not cmp:
        if da is None and _isinstance(ca[0], (int, SInt)) and not _isinstance(ca[0], bool):
            _check_weak_int(ca[0], dt)
        if db is None and _isinstance(cb[0], (int, SInt)) and not _isinstance(cb[0], bool):
            _check_weak_int(cb[0], dt)
    # broadcasting
    Ia = _np.arange(_b.len(ca)).reshape(sa)
    Ib = _np.arange(_b.len(cb)).reshape(sb)
    Ba, Bb = _np.broadcast_arrays(Ia, Ib)
    shp = Ba.shape
    res = []
    for i, j in zip(Ba.reshape(-1).tolist(), Bb.reshape(-1).tolist()):
        res.append(_cell_binop(op, ca[i], cb[j], dt, da, db))
    rdt = _BOOL if (cmp and dt.kind != 'O') else dt
    if cmp and dt.kind == 'O':
        rdt = _BOOL if _b.all(_isinstance(r, (bool, SBool)) for r in res) else _OBJ
    if shp == ():
        if rdt.kind == 'O':
            return res[0]
        return ndarray._new(res, (), rdt, True)
    # the output of a ufunc follows the memory layout of its array operands (order='K')
    for t in (a, b):
        if _isinstance(t, ndarray) and t._shape == tuple(shp) and _b.len(t._shape) >= 2 and not t.flags.c_contiguous:
            o = b if t is a else a
            if not _isinstance(o, ndarray) or o._shape == () or (o._shape == t._shape and
                                                                 sorted(range(o.size), key=lambda i: o._idx[i]) == sorted(range(t.size), key=lambda i: t._idx[i])):
                return t._like(res, dt=rdt)
    return ndarray._new(res, shp, rdt)


def _to_kind(v, dt, src):
    """bring an operand cell to the computation dtype"""
    if src is not None and src == dt:
        return v
    return cast_cell(v, dt, src)


def _cell_binop(op, x, y, dt, dx, dy):
    if _isinstance(x, Poison) or _isinstance(y, Poison):
        return x if _isinstance(x, Poison) else y
    k = dt.kind
    if op in _CMPSYM:
        return _cell_cmp(_CMPSYM[op], x, y, dt, dx, dy)
    if k == 'O':
        return _PYOPS[op](x, y)
    if k in 'iu':
        x, y = _to_kind(x, dt, dx), _to_kind(y, dt, dy)
        if op == 'add':
            r = T.iadd(x, y)
        elif op == 'sub':
            r = T.isub(x, y)
        elif op == 'mul':
            r = T.imul(x, y)
        elif op == 'floordiv':
            r = T.ifloordiv(x, y, zero='numpy')
        elif op == 'mod':
            r = T.imod(x, y, zero='numpy')
        elif op == 'and':
            r = T.iand(x, y)
        elif op == 'or':
            r = T.ior(x, y)
        elif op == 'xor':
            r = T.ixor(x, y)
        elif op in ('lshift', 'rshift'):
            if _isinstance(y, SInt):
                raise OutOfModel('symbolic shift count')
            bits = dt.itemsize * 8
            if y < 0:
                return Poison('negative shift count')
            if op == 'lshift':
                r = T.ishl(x, y) if y < bits else 0
            else:
                r = T.ishr(x, _b.min(y, bits))
        elif op == 'pow':
            if _isinstance(y, SInt):
                raise OutOfModel('symbolic exponent')
            if y < 0:
                raise ValueError('Integers to negative integer powers are not allowed.')
            r = T.ipow(x, y)
        else:
            raise OutOfModel('int op %s' % op)
        return wrap_int(r, dt)
    if k == 'f':
        x, y = _to_kind(x, _F64, dx), _to_kind(y, _F64, dy)
        if _isinstance(x, Poison) or _isinstance(y, Poison):
            return x if _isinstance(x, Poison) else y
        if dt.itemsize != 8:
            return Poison('symbolic arithmetic in %s' % dt)
        if op == 'add':
            return T.fadd(x, y)
        if op == 'sub':
            return T.fsub(x, y)
        if op == 'mul':
            return T.fmul(x, y)
        if op == 'truediv':
            return T.ftruediv(x, y)
        if op == 'floordiv':
            return T.ffloordiv(x, y)
        if op == 'mod':
            return T.fmod(x, y)
        if op == 'pow':
            return T.fpow(x, y) if _isinstance(y, (int, float)) and float(y).is_integer() and 0 <= y <= 4 else Poison('float power')
        raise OutOfModel('float op %s' % op)
    if k == 'b':
        if op in ('and', 'mul'):
            return T.b_and(x, y)
        if op in ('or', 'add'):
            return T.b_or(x, y)
        if op == 'xor':
            return T.mk_bool(T.lift_bool(x) != T.lift_bool(y))
        raise OutOfModel('bool op %s' % op)
    if k == 'c':
        x, y = _to_kind(x, _C128, dx), _to_kind(y, _C128, dy)
        if op == 'add':
            return T.cadd(x, y)
        if op == 'sub':
            return T.csub(x, y)
        if op == 'mul':
            return T.cmul(x, y)
        if op == 'truediv':
            return T.cdiv(x, y)
        raise OutOfModel('complex op %s' % op)
    raise OutOfModel('op %s on dtype %s' % (op, dt))


def _cell_cmp(sym, x, y, dt, dx, dy):
    if dt.kind == 'O':
        return _PYOPS[{v: k for k, v in _CMPSYM.items()}[sym]](x, y)
    if dt.kind in 'iub':
        # integer comparisons are exact in NumPy 2 (python ints of any size, int64 vs uint64)
        if _isinstance(x, (bool, SBool)):
            x = T.bool_to_int(x)
        if _isinstance(y, (bool, SBool)):
            y = T.bool_to_int(y)
        return T.icmp(x, y, sym)
    if dt.kind == 'f':
        x, y = _to_kind(x, _F64, dx), _to_kind(y, _F64, dy)
        return T.fcmp(x, y, sym)
    if dt.kind == 'c':
        if sym == '==':
            return T.ceq(x, y)
        if sym == '!=':
            return T.b_not(T.ceq(x, y))
    if dt.kind == 'U':
        if sym == '==':
            return x == y
        if sym == '!=':
            return x != y
    raise OutOfModel('comparison %s on %s' % (sym, dt))


def _unop(op, a):
    if _isinstance(a, ndarray) and a._concrete():
        f = {'neg': _op.neg, 'pos': _op.pos, 'abs': _b.abs, 'invert': _op.invert}[op]
        return wrap(f(a._real()))
    a = a if _isinstance(a, ndarray) else array(a)
    k = a.dtype.kind
    out = []
    for c in a._cells():
        if _isinstance(c, Poison):
            out.append(c)
        elif k == 'O':
            out.append({'neg': _op.neg, 'pos': _op.pos, 'abs': _b.abs, 'invert': _op.invert}[op](c))
        elif k in 'iu':
            r = {'neg': T.ineg, 'pos': lambda v: v, 'abs': T.iabs, 'invert': T.iinv}[op](c)
            out.append(wrap_int(r, a.dtype))
        elif k == 'f':
            if op == 'invert':
                raise TypeError("ufunc 'invert' not supported for the input types")
            out.append({'neg': T.fneg, 'pos': lambda v: v, 'abs': T.fabs}[op](c))
        elif k == 'b':
            if op == 'invert':
                out.append(T.b_not(c))
            elif op in ('pos', 'abs'):
                out.append(c)
            else:
                raise TypeError('The numpy boolean negative, the `-` operator, is not supported')
        elif k == 'c':
            if op == 'neg':
                out.append(-c)
            elif op == 'pos':
                out.append(c)
            else:
                raise OutOfModel('complex %s' % op)
        else:
            raise OutOfModel('unary %s on %s' % (op, a.dtype))
    if a._shape == ():
        if k == 'O':
            return out[0]
        return ndarray._new(out, (), a.dtype, True)
    return ndarray._new(out, a._shape, a.dtype)


def _mk_ufunc2(op, name):
    @_dispatch('ufunc')
    def f(a, b, out=None, **kw):
        r = _binop(op, a if _isinstance(a, ndarray) or _is_pyscalar(a) else asarray(a), b)
        return r
    f.__name__ = f.__qualname__ = name
    _UFUNC_OF[op] = f
    return f


add = _mk_ufunc2('add', 'add')
subtract = _mk_ufunc2('sub', 'subtract')
multiply = _mk_ufunc2('mul', 'multiply')
true_divide = divide = _mk_ufunc2('truediv', 'divide')
floor_divide = _mk_ufunc2('floordiv', 'floor_divide')
mod = remainder = _mk_ufunc2('mod', 'remainder')
power = _mk_ufunc2('pow', 'power')
bitwise_and = _mk_ufunc2('and', 'bitwise_and')
bitwise_or = _mk_ufunc2('or', 'bitwise_or')
bitwise_xor = _mk_ufunc2('xor', 'bitwise_xor')
left_shift = _mk_ufunc2('lshift', 'left_shift')
right_shift = _mk_ufunc2('rshift', 'right_shift')
less = _mk_ufunc2('lt', 'less')
less_equal = _mk_ufunc2('le', 'less_equal')
greater = _mk_ufunc2('gt', 'greater')
greater_equal = _mk_ufunc2('ge', 'greater_equal')
equal = _mk_ufunc2('eq', 'equal')
not_equal = _mk_ufunc2('ne', 'not_equal')


def _mk_ufunc1(op, name):
    @_dispatch('ufunc')
    def f(a, out=None, **kw):
        return _unop(op, a if _isinstance(a, ndarray) else asarray(a))
    f.__name__ = f.__qualname__ = name
    return f


negative = _mk_ufunc1('neg', 'negative')
positive = _mk_ufunc1('pos', 'positive')
absolute = abs = _mk_ufunc1('abs', 'absolute')
invert = bitwise_not = _mk_ufunc1('invert', 'invert')
fabs = absolute


@_dispatch('ufunc')
def conjugate(a, **kw):
    a = asarray(a)
    if a._concrete():
        return wrap(_np.conjugate(a._real()))
    if a.dtype.kind == 'c':
        return a._like([c.conjugate() for c in a._cells()], scalar=a._shape == ())
    return a


conj = conjugate


def _round_fn(name, ff):
    @_dispatch('ufunc')
    def g(a, *args, **kw):
        a = a if _isinstance(a, ndarray) else asarray(a)
        if a._concrete():
            return wrap(getattr(_np, name)(a._real(), *unwrap(args)))
        if args and args[0] not in (0, None):
            raise OutOfModel('%s with decimals' % name)
        k = a.dtype.kind
        if k in 'iu':
            if name == 'rint':
                return _scalarise(a.astype(_F64), a)
            return _scalarise(a._like(a._cells()), a)
        if k == 'f':
            out = []
            for c in a._cells():
                if _isinstance(c, LazyLog2):
                    out.append(T.int_to_float(T.ceil_log2(c.arg)) if name == 'ceil' else Poison(c.why))
                elif _isinstance(c, Poison):
                    out.append(c)
                else:
                    out.append(ff(c))
            return _scalarise(a._like(out), a)
        if k == 'O':
            raise TypeError("loop of ufunc does not support argument 0 of type int which has no callable %s method" % name)
        raise OutOfModel('%s on %s' % (name, a.dtype))
    g.__name__ = g.__qualname__ = name
    return g


def _scalarise(r, like):
    """ufunc results on 0-d inputs decay to scalars"""
    if like._shape == ():
        if r.dtype.kind == 'O':
            return r._one()
        return ndarray(r._store, r._idx, (), r.dtype, True)
    return r


floor = _round_fn('floor', T.ffloor)
ceil = _round_fn('ceil', T.fceil)
trunc = _round_fn('trunc', T.ftrunc)
fix = _round_fn('fix', T.ftrunc)
around = round = round_ = _round_fn('around', T.frint)
rint = _round_fn('rint', T.frint)


@_dispatch('ufunc')
def log2(a, **kw):
    a = a if _isinstance(a, ndarray) else asarray(a)
    if a._concrete():
        import warnings
        with warnings.catch_warnings():
            warnings.simplefilter('ignore')
            return wrap(_np.log2(a._real()))
    out = []
    for c in a._cells():
        if _is_symcell(c):
            out.append(LazyLog2(cast_cell(c, _F64, a.dtype)))
        else:
            import math
            out.append(math.log2(c) if c > 0 else (float('-inf') if c == 0 else float('nan')))
    return _scalarise(a._like(out, dt=_F64), a)


@_dispatch('function')
def where(c, x=None, y=None):
    if x is None:
        return nonzero(c)
    if _all_concrete(c, x, y):
        return wrap(_np.where(unwrap(c), unwrap(x), unwrap(y)))
    cc, sc, _, _ = _operand(c)
    cx, sx, dx, _ = _operand(x)
    cy, sy, dy, _ = _operand(y)
    if (dx is not None and dx.kind == 'O') or (dy is not None and dy.kind == 'O'):
        dt = _OBJ
    else:
        dt = _np.result_type(dx if dx is not None else _weak_rep(cx[0]), dy if dy is not None else _weak_rep(cy[0]))
    Bc, Bx, By = _np.broadcast_arrays(_np.arange(_b.len(cc)).reshape(sc), _np.arange(_b.len(cx)).reshape(sx), _np.arange(_b.len(cy)).reshape(sy))
    out = []
    for i, j, k in zip(Bc.reshape(-1).tolist(), Bx.reshape(-1).tolist(), By.reshape(-1).tolist()):
        cond = cc[i]
        if _isinstance(cond, (int, SInt)) and not _isinstance(cond, bool):
            cond = T.icmp(cond, 0, '!=')
        a_, b_ = cast_cell(cx[j], dt, dx), cast_cell(cy[k], dt, dy)
        out.append(_ite(cond, a_, b_))
    return ndarray._new(out, Bc.shape, dt)


def _ite(c, a, b):
    if c is True:
        return a
    if c is False:
        return b
    if _isinstance(a, (complex, SComplex)) or _isinstance(b, (complex, SComplex)):
        a, b = T.clift(a), T.clift(b)
        return T.mkc(T.fite(c, a.re, b.re), T.fite(c, a.im, b.im))
    return T.iite(c, a, b)


def _cmin(a, b, kind):
    if _isinstance(a, Poison) or _isinstance(b, Poison):
        return a if _isinstance(a, Poison) else b
    if kind == 'f' or _isinstance(a, (float, SFloat)) or _isinstance(b, (float, SFloat)):
        return T.fmin(a, b)
    return T.imin(a, b)


def _cmax(a, b, kind):
    if _isinstance(a, Poison) or _isinstance(b, Poison):
        return a if _isinstance(a, Poison) else b
    if kind == 'f' or _isinstance(a, (float, SFloat)) or _isinstance(b, (float, SFloat)):
        return T.fmax(a, b)
    return T.imax(a, b)


def _pymin(a, b):
    """python min(a, b) semantics on object cells: returns b only if b < a"""
    c = b < a
    if _isinstance(c, bool):
        return b if c else a
    if _isinstance(a, (int, SInt)) and _isinstance(b, (int, SInt)):
        return T.iite(c, b, a)
    return b if _b.bool(c) else a


def _pymax(a, b):
    c = b > a
    if _isinstance(c, bool):
        return b if c else a
    if _isinstance(a, (int, SInt)) and _isinstance(b, (int, SInt)):
        return T.iite(c, b, a)
    return b if _b.bool(c) else a


@_dispatch('function')
def clip(a, a_min=None, a_max=None, out=None, **kw):
    if 'min' in kw:
        a_min = kw.pop('min')
    if 'max' in kw:
        a_max = kw.pop('max')
    a = a if _isinstance(a, ndarray) else asarray(a)
    if _all_concrete(a, a_min, a_max):
        return wrap(_np.clip(a._real(), unwrap(a_min), unwrap(a_max)))
    r = a
    if a.dtype.kind == 'O':
        cells = a._cells()
        if a_min is not None:
            lo = _operand(a_min)[0]
            cells = [_pymax(c, lo[i % _b.len(lo)]) for i, c in enumerate(cells)]
        if a_max is not None:
            hi = _operand(a_max)[0]
            cells = [_pymin(c, hi[i % _b.len(hi)]) for i, c in enumerate(cells)]
        if a._shape == ():
            return cells[0]
        return a._like(cells)
    if a_min is not None:
        r = maximum(r, a_min)
    if a_max is not None:
        r = minimum(r, a_max)
    return r


def _minmax2(name, cfn):
    @_dispatch('ufunc')
    def f(a, b, **kw):
        if _all_concrete(a, b):
            return wrap(getattr(_np, name)(unwrap(a), unwrap(b)))
        ca, sa, da, _ = _operand(a)
        cb, sb, db, _ = _operand(b)
        dt = _np.result_type(da if da is not None else _weak_rep(ca[0]), db if db is not None else _weak_rep(cb[0]))
        if dt.kind in 'iu':
            for cs, d in ((ca, da), (cb, db)):
                if d is None:
                    _check_weak_int(cs[0], dt)
        Ba, Bb = _np.broadcast_arrays(_np.arange(_b.len(ca)).reshape(sa), _np.arange(_b.len(cb)).reshape(sb))
        out = [cfn(cast_cell(ca[i], dt, da), cast_cell(cb[j], dt, db), dt.kind) for i, j in zip(Ba.reshape(-1).tolist(), Bb.reshape(-1).tolist())]
        if Ba.shape == ():
            return ndarray._new(out, (), dt, True)
        return ndarray._new(out, Ba.shape, dt)
    f.__name__ = f.__qualname__ = name
    return f


minimum = _minmax2('minimum', _cmin)
maximum = _minmax2('maximum', _cmax)


# ------------------------------------------------------------------------------------------ reductions

def _groups(a, axis):
    """-> (list of flat-index groups, result shape) for a reduction along axis (None: everything)"""
    I = _np.arange(a.size).reshape(a._shape)
    if axis is None:
        return [I.reshape(-1).tolist()], ()
    if _isinstance(axis, tuple):
        if _b.len(axis) == 1:
            axis = axis[0]
        else:
            M = _np.moveaxis(I, axis, tuple(range(-_b.len(axis), 0)))
            n = 1
            for ax in axis:
                n *= a._shape[ax]
            return M.reshape(-1, n).tolist(), M.shape[:-_b.len(axis)]
    M = _np.moveaxis(I, axis, -1)
    return M.reshape(-1, M.shape[-1]).tolist() if M.size else [], M.shape[:-1]


def _acc_dtype(dt, explicit=None):
    if explicit is not None:
        return as_dtype(explicit)
    if dt.kind == 'b' or (dt.kind == 'i' and dt.itemsize < 8):
        return _I64
    if dt.kind == 'u' and dt.itemsize < 8:
        return _U64
    return dt


def _reduce(name, a, axis, cellfn, init, dtype=None, cumulative=False, keepdims=False):
    a = a if _isinstance(a, ndarray) else asarray(a)
    if a._concrete():
        kw = {}
        if dtype is not None:
            kw['dtype'] = as_dtype(dtype)
        if keepdims:
            kw['keepdims'] = True
        return wrap(getattr(_np, name)(a._real(), axis=axis, **kw))
    dt = _acc_dtype(a.dtype, dtype) if name in ('sum', 'prod', 'cumsum', 'cumprod') else a.dtype
    cells = [cast_cell(c, dt, a.dtype) for c in a._cells()]
    if cumulative:
        if axis is None:
            order = list(range(a.size))
            out, acc = [], None
            for i in order:
                acc = cells[i] if acc is None else cellfn(acc, cells[i], dt)
                out.append(acc)
            return ndarray._new(out, (a.size,), dt)
        groups, _ = _groups(a, axis)
        out = [None] * a.size
        for g in groups:
            acc = None
            for i in g:
                acc = cells[i] if acc is None else cellfn(acc, cells[i], dt)
                out[i] = acc
        return ndarray._new(out, a._shape, dt)
    groups, rshape = _groups(a, axis)
    out = []
    for g in groups:
        if not g:
            if init is None:
                raise ValueError('zero-size array to reduction operation %s which has no identity' % name)
            out.append(init)
            continue
        acc = cells[g[0]]
        for i in g[1:]:
            acc = cellfn(acc, cells[i], dt)
        out.append(acc)
    if rshape == ():
        if dt.kind == 'O':
            return out[0]
        return ndarray._new(out, (), dt, True)
    return ndarray._new(out, rshape, dt)


def _c_add(x, y, dt):
    return _cell_binop('add', x, y, dt, dt, dt)


def _c_mul(x, y, dt):
    return _cell_binop('mul', x, y, dt, dt, dt)


def _c_max(x, y, dt):
    return _pymax(x, y) if dt.kind == 'O' else _cmax(x, y, dt.kind)


def _c_min(x, y, dt):
    return _pymin(x, y) if dt.kind == 'O' else _cmin(x, y, dt.kind)


@_dispatch('function')
def sum(a, axis=None, dtype=None, out=None, keepdims=False, **kw):
    return _reduce('sum', a, axis, _c_add, 0, dtype, keepdims=keepdims)


@_dispatch('function')
def prod(a, axis=None, dtype=None, out=None, keepdims=False, **kw):
    return _reduce('prod', a, axis, _c_mul, 1, dtype, keepdims=keepdims)


@_dispatch('function')
def cumsum(a, axis=None, dtype=None, out=None):
    return _reduce('cumsum', a, axis, _c_add, 0, dtype, cumulative=True)


@_dispatch('function')
def cumprod(a, axis=None, dtype=None, out=None):
    return _reduce('cumprod', a, axis, _c_mul, 1, dtype, cumulative=True)


@_dispatch('function')
def max(a, axis=None, out=None, keepdims=False, **kw):
    return _reduce('max', a, axis, _c_max, None, keepdims=keepdims)


@_dispatch('function')
def min(a, axis=None, out=None, keepdims=False, **kw):
    return _reduce('min', a, axis, _c_min, None, keepdims=keepdims)


amax, amin = max, min


def _truth(c):
    if _isinstance(c, (bool, SBool)):
        return c
    if _isinstance(c, (int, SInt)):
        return T.icmp(c, 0, '!=')
    if _isinstance(c, (float, SFloat)):
        return T.fcmp(c, 0, '!=')
    if _isinstance(c, Poison):
        raise OutOfModel('poison in any/all: ' + c.why)
    return _b.bool(c)


@_dispatch('function')
def any(a, axis=None, out=None, **kw):
    a = a if _isinstance(a, ndarray) else asarray(a)
    if a._concrete():
        return wrap(_np.any(a._real(), axis=axis))
    groups, rshape = _groups(a, axis)
    cells = a._cells()
    out = [T.b_or(*[_truth(cells[i]) for i in g]) if g else False for g in groups]
    if rshape == ():
        return ndarray._new(out, (), _BOOL, True)
    return ndarray._new(out, rshape, _BOOL)


@_dispatch('function')
def all(a, axis=None, out=None, **kw):
    a = a if _isinstance(a, ndarray) else asarray(a)
    if a._concrete():
        return wrap(_np.all(a._real(), axis=axis))
    groups, rshape = _groups(a, axis)
    cells = a._cells()
    out = [T.b_and(*[_truth(cells[i]) for i in g]) if g else True for g in groups]
    if rshape == ():
        return ndarray._new(out, (), _BOOL, True)
    return ndarray._new(out, rshape, _BOOL)


@_dispatch('function')
def transpose(a, axes=None):
    a = a if _isinstance(a, ndarray) else asarray(a)
    I = _np.arange(a.size).reshape(a._shape).transpose(axes)
    return ndarray(a._store, [a._idx[i] for i in I.reshape(-1).tolist()], I.shape, a.dtype)


@_dispatch('function')
def diagonal(a, offset=0, axis1=0, axis2=1):
    a = a if _isinstance(a, ndarray) else asarray(a)
    I = _np.arange(a.size).reshape(a._shape).diagonal(offset, axis1, axis2)
    return ndarray(a._store, [a._idx[i] for i in I.reshape(-1).tolist()], I.shape, a.dtype)


@_dispatch('function')
def trace(a, offset=0, axis1=0, axis2=1, dtype=None, out=None):
    a = a if _isinstance(a, ndarray) else asarray(a)
    if a._concrete():
        return wrap(_np.trace(a._real(), offset, axis1, axis2))
    return sum(diagonal(a, offset, axis1, axis2), axis=-1, dtype=dtype)


@_dispatch('function')
def reshape(a, *args, **kw):
    a = a if _isinstance(a, ndarray) else asarray(a)
    shape = kw.get('newshape', kw.get('shape', args[0] if args else None))
    return a.reshape(shape)


@_dispatch('function')
def ravel(a, order='C'):
    return asarray(a).ravel(order)


@_dispatch('function')
def squeeze(a, axis=None):
    return asarray(a).squeeze(axis)


@_dispatch('function')
def sort(a, axis=-1, kind=None, order=None, **kw):
    a = a if _isinstance(a, ndarray) else asarray(a)
    if a._concrete():
        return wrap(_np.sort(a._real(), axis=axis))
    cells = a._cells()
    if axis is None:
        groups, shape = [list(range(a.size))], (a.size,)
        out = [None] * a.size
    else:
        groups, _ = _groups(a, axis)
        shape = a._shape
        out = [None] * a.size
    k = a.dtype.kind
    for g in groups:
        vals = [cells[i] for i in g]
        n = _b.len(vals)
        # odd-even transposition sorting network of compare-exchange cells
        for rnd in range(n):
            for j in range(rnd % 2, n - 1, 2):
                lo, hi = (_cmin(vals[j], vals[j + 1], k), _cmax(vals[j], vals[j + 1], k)) if k != 'O' else \
                    (_pymin(vals[j], vals[j + 1]), _pymax(vals[j + 1], vals[j]))
                vals[j], vals[j + 1] = lo, hi
        if axis is None:
            out = vals
        else:
            for i, v in zip(g, vals):
                out[i] = v
    return ndarray._new(out, shape, a.dtype)


@_dispatch('function')
def dot(a, b, out=None):
    a = a if _isinstance(a, ndarray) else asarray(a)
    b = b if _isinstance(b, ndarray) else asarray(b)
    if a._concrete() and b._concrete():
        return wrap(_np.dot(a._real(), b._real()))
    if a.ndim == 0 or b.ndim == 0:
        return _binop('mul', a, b)
    if a.dtype.kind == 'O' or b.dtype.kind == 'O':
        dt = _OBJ
    else:
        dt = _np.result_type(a.dtype, b.dtype)
    ca = [cast_cell(c, dt, a.dtype) for c in a._cells()]
    cb = [cast_cell(c, dt, b.dtype) for c in b._cells()]
    Ia = _np.arange(a.size).reshape(a._shape)
    Ib = _np.arange(b.size).reshape(b._shape)
    if a._shape[-1] != (b._shape[-2] if b.ndim >= 2 else b._shape[0]):
        raise ValueError('shapes %r and %r not aligned' % (a._shape, b._shape))
    # result[i..., j...] = sum_k a[i..., k] * b[j..., k, j']
    A2 = Ia.reshape(-1, a._shape[-1])
    if b.ndim == 1:
        B2 = Ib.reshape(-1, 1)
        bshape = ()
    else:
        B2 = _np.moveaxis(Ib, -2, 0).reshape(b._shape[-2], -1)
        bshape = b._shape[:-2] + b._shape[-1:]
    out = []
    for row in A2.tolist():
        for col in B2.T.tolist():
            acc = None
            for i, j in zip(row, col):
                p = _cell_binop('mul', ca[i], cb[j], dt, dt, dt)
                acc = p if acc is None else _cell_binop('add', acc, p, dt, dt, dt)
            out.append(acc if acc is not None else cast_cell(0, dt))
    shape = a._shape[:-1] + bshape
    if shape == ():
        if dt.kind == 'O':
            return out[0]
        return ndarray._new(out, (), dt, True)
    return ndarray._new(out, shape, dt)


matmul = dot


@_dispatch('function')
def nonzero(a):
    a = a if _isinstance(a, ndarray) else asarray(a)
    if a._concrete():
        return wrap(_np.nonzero(a._real()))
    mask = [_b.bool(_truth(c)) for c in a._cells()]          # forks per cell
    return wrap(_np.nonzero(_np.array(mask).reshape(a._shape)))


def _argext(name, cmp):
    @_dispatch('function')
    def f(a, axis=None, **kw):
        a = a if _isinstance(a, ndarray) else asarray(a)
        if a._concrete():
            return wrap(getattr(_np, name)(a._real(), axis=axis))
        if axis is not None:
            raise OutOfModel('%s with axis on symbolic array' % name)
        cells = a._cells()
        best = 0
        for i in range(1, _b.len(cells)):
            if _b.bool(cmp(cells[i], cells[best])):
                best = i
        return wrap(_np.int64(best))
    f.__name__ = f.__qualname__ = name
    return f


argmax = _argext('argmax', lambda x, y: x > y)
argmin = _argext('argmin', lambda x, y: x < y)


@_dispatch('function')
def mean(a, axis=None, dtype=None, out=None, **kw):
    a = a if _isinstance(a, ndarray) else asarray(a)
    if a._concrete():
        return wrap(_np.mean(a._real(), axis=axis))
    return a._like([Poison('np.mean')] * (1 if axis is None else a.size), shape=() if axis is None else a._shape, dt=_F64, scalar=axis is None)


# ------------------------------------------------------------------------------------------ vectorize

class vectorize:
    def __init__(self, pyfunc=None, otypes=None, **kw):
        self.pyfunc = pyfunc
        self.otypes = otypes
        self.__name__ = getattr(pyfunc, '__name__', 'vectorized')
        self.__doc__ = getattr(pyfunc, '__doc__', None)

    def __call__(self, *args, **kwargs):
        names = list(kwargs)
        allargs = list(args) + [kwargs[k] for k in names]
        conv = []
        for a in allargs:
            if _isinstance(a, ndarray):
                conv.append(a)
            elif _isinstance(a, (list, tuple)):
                conv.append(array(a))
            elif a is None or _is_pyscalar(a) or _isinstance(a, (str, S.SStr)):
                conv.append(a)
            elif hasattr(a, '__array__'):
                conv.append(asarray(a))
            else:
                conv.append(a)
        idxs = [_np.arange(c.size).reshape(c._shape) if _isinstance(c, ndarray) else _np.arange(1).reshape(()) for c in conv]
        B = _np.broadcast_arrays(*idxs) if idxs else []
        shp = B[0].shape if B else ()
        cellss = [c._cells() if _isinstance(c, ndarray) else [c] for c in conv]
        flatB = [b.reshape(-1).tolist() for b in B]
        n = _b.len(flatB[0]) if flatB else 1
        outs = []
        na = _b.len(args)
        for p in range(n):
            vals = [cellss[q][flatB[q][p]] for q in range(_b.len(conv))]
            r = self.pyfunc(*vals[:na], **dict(zip(names, vals[na:])))
            outs.append(r)
        if n == 0:
            raise ValueError('cannot call `vectorize` on size 0 inputs unless `otypes` is set')
        # output dtype = type of the first result
        if self.otypes:
            dt = as_dtype(self.otypes[0])
        else:
            first = outs[0]
            dt = first.dtype if _isinstance(first, ndarray) else _leaf_dtype([(first, None)])
        cells = []
        for r in outs:
            if _isinstance(r, ndarray):
                cells.append(cast_cell(r._one(), dt, r.dtype))
            else:
                cells.append(cast_cell(r, dt, None))
        return ndarray._new(cells, shp, dt)


def frompyfunc(f, nin, nout):
    raise OutOfModel('np.frompyfunc')


# ------------------------------------------------------------------------------------------ strings of integers

def binary_repr(num, width=None):
    if _isinstance(num, ndarray):
        num = num._one()
    if not _isinstance(num, SInt):
        return _np.binary_repr(int(num), width)
    neg = num < 0                       # forks when the sign is undecided
    if not neg:
        num = T.refine_or(num, 0, num.hi)
        if not _isinstance(num, SInt):
            return _np.binary_repr(int(num), width)
        if width is None:
            return S.to_base_var(num, 1)
        if num.hi.bit_length() > width:
            if not (num < (1 << width)):
                raise ValueError('Insufficient bit width=%d provided for binary_repr' % width)
            num = T.refine_or(num, 0, (1 << width) - 1)
            return S.to_base_fixed(num, 1, width)
        return S.to_base_fixed(num, 1, width)
    if width is None:
        return S.norm(['-'] + S.chars_of(S.to_base_var(T.ineg(num), 1)))
    if num.lo < -(1 << (width - 1)):
        if num < -(1 << (width - 1)):
            raise ValueError('Insufficient bit width=%d provided for binary_repr' % width)
    return S.to_base_fixed(T.imod_pow2(num, width), 1, width)


def base_repr(number, base=2, padding=0):
    if _isinstance(number, ndarray):
        number = number._one()
    if not _isinstance(number, SInt):
        return _np.base_repr(int(number), base, padding)
    if number < 0:
        return S.norm(['-'] + S.chars_of(base_repr(T.ineg(number), base, padding)))
    number = T.refine_or(number, 0, number.hi)
    if not _isinstance(number, SInt):
        return _np.base_repr(int(number), base, padding)
    if base & (base - 1) == 0:
        bits = base.bit_length() - 1
        body = S.to_base_var(number, bits)
    else:
        # digit count fork, digits by division with constants
        n = 1
        while base ** n <= number.hi:
            if number < base ** n:
                break
            n += 1
        digs = []
        v = number
        for _ in range(n):
            q, r = T.idivmod(v, base)
            digs.append(S.digit_char(r, base))
            v = q
        body = S.norm(list(reversed(digs)))
    return S.norm(['0'] * padding + S.chars_of(body))


# ------------------------------------------------------------------------------------------ everything else: concrete-only

_FALLBACK = {}


def __getattr__(name):
    if name.startswith('__'):
        raise AttributeError(name)
    if name in _FALLBACK:
        return _FALLBACK[name]
    real = getattr(_np, name)
    if _isinstance(real, type) or not callable(real) or _isinstance(real, _np.dtype):
        return real
    kind = 'ufunc' if _isinstance(real, _np.ufunc) else 'function'

    @_dispatch(kind)
    def stub(*a, **k):
        if _all_concrete(a, k):
            return wrap(real(*unwrap(a), **unwrap(k)))
        # a NumPy function without a symbolic model: the result is outside the model
        arr = [x for x in a if _isinstance(x, ndarray)]
        if arr:
            return arr[0]._like([Poison('np.%s is not modelled' % name)] * arr[0].size, dt=_F64)
        return Poison('np.%s is not modelled' % name)
    stub.__name__ = stub.__qualname__ = name
    _FALLBACK[name] = stub
    return stub
