"""Path exploration by re-execution with a decision prefix; one long-lived QF_BV solver per process."""
import time
import z3
from . import term as T
from .term import Abort, OutOfModel, Undecided, PathCap
import os
DEBUG = bool(os.environ.get('SX_DEBUG'))


class Path:
    __slots__ = ('decisions', 'pc', 'result', 'exc', 'model', 'not_encoded', 'undecided')

    def __init__(self, decisions, pc, result=None, exc=None, model=None, not_encoded=None, undecided=None):
        self.decisions, self.pc, self.result, self.exc, self.model = decisions, pc, result, exc, model
        self.not_encoded, self.undecided = not_encoded, undecided


class Explorer:
    def __init__(self, timeout_ms=60000, max_paths=20000):
        self.solver = z3.SolverFor('QF_BV')
        self.solver.set('timeout', timeout_ms)
        self.timeout_ms = timeout_ms
        self.max_paths = max_paths
        self.base = []            # domain constraints of the symbolic inputs (z3 bools)
        self.defs, self.defs_light, self._prod, self._divs, self.prods, self._rne = [], [], {}, {}, [], {}
        self.pc = []
        self.decisions = []
        self.prefix = []
        self.model = None         # a model of base + pc (or None if unknown)
        self.stats = dict(paths=0, infeasible=0, solver_queries=0, solver_s=0.0, syntactic=0, branch_solver=0,
                          not_encoded=0, undecided=0, cache_hits=0)
        self._in_path = False
        self._in_light = False
        self._s2 = None
        self._scope_path = None
        self._decided, self._keep = {}, []
        self._sel_cache, self._nsel = {}, 0
        self._graveyard = []
        self.quick_ms = int(os.environ.get('SX_QUICK_MS', '2000'))

    # ---- solver plumbing
    def reset(self, base):
        """new configuration: fresh domain constraints"""
        self.solver.reset()
        self.solver.set('timeout', self.timeout_ms)
        self.base = list(base)
        for c in self.base:
            self.solver.add(c)
        self.pc, self.decisions, self.prefix, self.model = [], [], [], None
        self.defs, self.defs_light, self._prod, self._divs, self.prods, self._rne = [], [], {}, {}, [], {}

    def product(self, a, b, lo, hi):
        """symbolic x symbolic product as a fresh variable p with the definition p == a*b kept on the side:
        the lifted code and the specification then share one syntactic term for the product"""
        ka, kb = a.bv.get_id(), b.bv.get_id()
        key = (ka, kb) if ka <= kb else (kb, ka)
        hit = self._prod.get(key)
        if hit is not None:
            return hit[0]
        # factors that are equal to the factors of an existing product under the current path condition (same values reached through
        # different terms, e.g. a constant quantised by the code and by the specification) share that product: one cheap query
        # without any multiplication instead of an equivalence proof of two multiplier circuits later
        for (r2, a2, b2) in list(self._prod.values()):
            for (u, v) in ((a2, b2), (b2, a2)):
                if u.lo > a.hi or u.hi < a.lo or v.lo > b.hi or v.hi < b.lo:
                    continue
                wa, wb = max(a.w, u.w), max(b.w, v.w)
                same = z3.And(a.ext(wa) == u.ext(wa), b.ext(wb) == v.ext(wb))
                try:
                    if self.implied(same):
                        return r2
                except Undecided:
                    pass
        w = max(T.bits_for(lo, hi), a.w, b.w)
        p = z3.BitVec(T.fresh_name('prod'), w)
        rng = z3.And(p >= z3.BitVecVal(lo, w), p <= z3.BitVecVal(hi, w))
        d = z3.And(p == a.ext(w) * b.ext(w), rng)
        r = T.mk(p, lo, hi)
        self._prod[key] = (r, a, b)
        self.prods.append((p, a.ext(w) * b.ext(w), (a if a.w <= b.w else b)))
        self.defs.append(d)
        self.defs_light.append(rng)
        self.solver.add(rng)
        return r

    def _fresh_check(self, assertions, timeout_ms):
        self.stats['fresh_solver_queries'] = self.stats.get('fresh_solver_queries', 0) + 1
        s = z3.SolverFor('QF_BV')
        s.set('timeout', timeout_ms)
        for c in assertions:
            s.add(c)
        r = s.check()
        return r, (s.model() if r == z3.sat else None)

    def _repair(self, m, conds):
        """model of the light query -> same inputs, every product variable recomputed from its factors; None if a condition fails"""
        try:
            m = m.translate(z3.main_ctx())
            for pv, e, _ in self.prods:
                m.update_value(pv, m.eval(e, model_completion=True))
            for c in conds:
                if not z3.is_true(m.eval(c, model_completion=True)):
                    return None
            return m
        except z3.Z3Exception:
            return None

    def _external_check(self, assertions, timeout_s):
        """decide in a separate z3 process killed after timeout_s; returns (z3.sat|unsat|unknown, model or None)"""
        import subprocess, tempfile, re, shutil
        from z3 import z3util
        s = z3.Solver()
        for c in assertions:
            s.add(c)
        consts, seen, stack = {}, set(), list(assertions)
        while stack:                                  # free constants of the DAG (z3util.get_vars walks it as a tree)
            e = stack.pop()
            i = e.get_id()
            if i in seen:
                continue
            seen.add(i)
            if z3.is_const(e):
                if e.decl().kind() == z3.Z3_OP_UNINTERPRETED:
                    consts[e.decl().name()] = e
            else:
                stack.extend(e.children())
        txt = s.to_smt2()
        for a in ('bvsdiv', 'bvsrem', 'bvudiv', 'bvurem', 'bvsmod'):
            txt = txt.replace(a + '_i', a)
        names = sorted(consts)
        txt = '(set-logic QF_BV)\n(set-option :produce-models true)\n' + txt
        if names:
            txt += '\n(get-value (%s))\n' % ' '.join('|%s|' % n for n in names)
        exe = shutil.which('z3-new') or shutil.which('z3') or '/usr/bin/z3'
        d = tempfile.mkdtemp(prefix='sx_exact_')
        try:
            path = os.path.join(d, 'q.smt2')
            open(path, 'w').write(txt)
            try:
                pr = subprocess.run([exe, '-T:%d' % max(1, int(timeout_s)), path], capture_output=True, text=True, timeout=timeout_s + 10)
            except subprocess.TimeoutExpired:
                return z3.unknown, None
            out = pr.stdout or ''
        finally:
            shutil.rmtree(d, ignore_errors=True)
        first = out.strip().split('\n', 1)[0].strip() if out.strip() else ''
        if first == 'unsat':
            return z3.unsat, None                 # (the get-value that follows an unsat answer prints an error line: expected)
        if '(error' in out:
            return z3.unknown, None
        if first != 'sat':
            return z3.unknown, None
        m = z3.Model()
        for name, val in re.findall(r'\(\|?([^\s|()]+)\|?\s+(#x[0-9a-fA-F]+|#b[01]+|true|false)\)', out):
            v = consts.get(name)
            if v is None:
                continue
            if val in ('true', 'false'):
                m.update_value(v, z3.BoolVal(val == 'true'))
            else:
                n = int(val[2:], 16 if val[1] == 'x' else 2)
                m.update_value(v, z3.BitVecVal(n, v.size()))
        return z3.sat, m

    def lemma(self, fact):
        """a valid fact about terms already built (never an assumption): kept for every later path and verdict query of the configuration"""
        fact = z3.simplify(fact)          # same normal form as the (simplified) branch and verdict conditions
        self.defs_light.append(fact)
        self.solver.add(fact)

    def _check(self, *extra):
        t = time.time()
        self.solver.push()
        try:
            for c in extra:
                self.solver.add(c)
            self.solver.set('timeout', min(self.timeout_ms, self.quick_ms))
            r = self.solver.check()
            m = self.solver.model() if r == z3.sat else None
            if r == z3.unknown:
                # the incremental (push/pop) core has no preprocessing; a fresh one-shot solver often decides at once what it cannot
                r, m = self._fresh_check(list(self.solver.assertions()), self.timeout_ms)
        finally:
            self.solver.pop()
        self.stats['solver_s'] += time.time() - t
        self.stats['solver_queries'] += 1
        if DEBUG and time.time() - t > 1.0:
            import traceback
            print('SLOW QUERY %.1fs' % (time.time() - t), [str(c)[:int(os.environ.get('SX_DEBUG_LEN', '400'))] for c in extra], ''.join(traceback.format_stack(limit=14)[-12:-2]))
        if r == z3.unknown:
            raise Undecided(self.solver.reason_unknown())
        return r == z3.sat, m

    def _holds(self, cond):
        """does the cached model satisfy cond ?"""
        if self.model is None:
            return None
        try:
            v = self.model.eval(cond, model_completion=True)
        except z3.Z3Exception:
            return None
        if z3.is_true(v):
            return True
        if z3.is_false(v):
            return False
        return None

    def feasible(self, cond):
        h = self._holds(cond)
        if h is True:
            self.stats['cache_hits'] += 1
            return True, self.model
        return self._check(cond)

    # ---- API used by terms / shims
    def branch(self, cond):
        cond = z3.simplify(cond)
        if z3.is_true(cond):
            self.stats['syntactic'] += 1
            return True
        if z3.is_false(cond):
            self.stats['syntactic'] += 1
            return False
        # a condition already decided on this path (same term) needs no new decision
        cid = cond.get_id()
        known = self._decided.get(cid)
        if known is not None:
            self.stats['syntactic'] += 1
            return known
        ncond = z3.simplify(z3.Not(cond))
        nid = ncond.get_id()
        self._keep.append(ncond)          # AST ids are recycled once a term is freed: keep both alive while their ids are keys
        self._keep.append(cond)
        i = len(self.decisions)
        if i < len(self.prefix):
            d = self.prefix[i]
            self.model = None if self._holds(cond if d else z3.Not(cond)) is not True else self.model
        else:
            self.stats['branch_solver'] += 1
            st, mt = self.feasible(cond)
            sf, mf = self.feasible(z3.Not(cond))
            if st and sf:
                self.worklist.append(self.decisions + [False])
                d, self.model = True, mt
            elif st:
                d, self.model = True, mt
            elif sf:
                d, self.model = False, mf
            else:
                raise Abort()
        self.decisions.append(d)
        self._nsel = 0
        c = cond if d else z3.Not(cond)
        self._decided[cid] = d
        self._decided[nid] = not d
        self.pc.append(c)
        self.solver.add(c)
        return d

    def assume(self, cond):
        """add an assumption to the current path (Abort if it makes the path infeasible)"""
        if isinstance(cond, bool):
            if not cond:
                raise Abort()
            return
        e = z3.simplify(T.lift_bool(cond))
        if z3.is_true(e):
            return
        if z3.is_false(e):
            raise Abort()
        ok, m = self.feasible(e)
        if not ok:
            raise Abort()
        self.model = m
        self.pc.append(e)
        self.solver.add(e)

    def implied(self, cond):
        """does base + pc imply cond ?"""
        if isinstance(cond, bool):
            return cond
        if isinstance(cond, T.SBool):
            cond = cond.e
        cond = z3.simplify(cond)
        if z3.is_true(cond):
            return True
        if z3.is_false(cond):
            return False
        if self._holds(z3.Not(cond)) is True:
            return False
        sat, m = self._check(z3.Not(cond))
        return not sat

    def decided(self, cond):
        """True / False when base + pc leave only that side of cond feasible, None when both sides are (no decision is recorded)"""
        if isinstance(cond, bool):
            return cond
        if isinstance(cond, T.SBool):
            cond = cond.e
        cond = z3.simplify(cond)
        if z3.is_true(cond):
            return True
        if z3.is_false(cond):
            return False
        known = self._decided.get(cond.get_id())
        if known is not None:
            return known
        # paths are explored by re-execution: the same question comes back at the same place of every path sharing this decision prefix
        key = (tuple(self.decisions), self._nsel)
        self._nsel += 1
        if key in self._sel_cache:
            return self._sel_cache[key]
        st, mt = self.feasible(cond)
        sf, mf = self.feasible(z3.Not(cond))
        if not st and not sf:
            raise Abort()
        r = None if (st and sf) else st
        self._sel_cache[key] = r
        return r

    def current_model(self):
        if self.model is None:
            ok, m = self._check()
            if not ok:
                raise Abort()
            self.model = m
        return self.model

    # ---- exploration
    def run(self, fn):
        """yield a Path for every feasible execution of fn()"""
        self.worklist = [[]]
        self._sel_cache = {}
        n = 0
        while self.worklist:
            if n >= self.max_paths:
                raise PathCap('more than %d paths' % self.max_paths)
            self.prefix = self.worklist.pop()
            self.decisions, self.pc, self.model = [], [], None
            self._decided, self._keep = {}, []
            self._nsel = 0
            self.solver.push()
            for d in self.defs_light:
                self.solver.add(d)
            T.set_explorer(self)
            res = exc = ne = und = None
            try:
                try:
                    res = fn()
                except Abort:
                    self.stats['infeasible'] += 1
                    continue
                except OutOfModel as e:
                    ne = str(e)
                    self.stats['not_encoded'] += 1
                except Undecided as e:
                    und = str(e)
                    self.stats['undecided'] += 1
                except PathCap:
                    raise
                except Exception as e:            # exception raised by the lifted code: part of the outcome
                    exc = e
                    if DEBUG:
                        import traceback
                        traceback.print_exc()
                n += 1
                self.stats['paths'] += 1
                model = None
                if not self.defs:
                    try:
                        model = self.current_model()
                    except (Abort, Undecided):
                        model = None
                p = Path(list(self.decisions), list(self.pc), res, exc, model, ne, und)
                yield p
            finally:
                self.solver.pop()
                T.set_explorer(self)

    def check_in_path(self, path, *extra, exact_timeout_ms=None):
        """satisfiability of base + path.pc + extra (verdict queries, witnesses).
        Symbolic products are first left uninterpreted (only their ranges are kept): an over-approximation that is
        sound for `unsat`.  A `sat` answer is re-checked with the exact definitions p == a*b."""
        t = time.time()
        s2 = self._scratch()
        r, m = None, None
        dirty = False
        try:
            scoped = self._scope_path is path
            s2.push()
            try:
                for c in (list(extra) if scoped else self.base + self.defs_light + list(path.pc) + list(extra)):
                    s2.add(c)
                s2.set('timeout', min(self.timeout_ms, self.quick_ms))
                r = s2.check()
                m = s2.model() if r == z3.sat else None
                if r == z3.unknown:
                    dirty = True          # (popping an incremental solver whose check was cut short has been seen to spin for tens of minutes)
                    r, m = self._fresh_check(list(s2.assertions()), self.timeout_ms)
                s2.set('timeout', self.timeout_ms)
                if r == z3.sat and self.defs:
                    # the light query leaves products uninterpreted: first try to repair its model by computing every product
                    # from its factors (pure evaluation); only if the repaired model misses a constraint ask a solver for the
                    # exact definitions -- in a separate z3 process under a hard time limit (multiplier queries can ignore
                    # the in-process timeout)
                    conds = self.base + self.defs_light + list(path.pc) + list(extra)
                    m2 = self._repair(m, conds)
                    if m2 is not None:
                        self.stats['models_repaired'] = self.stats.get('models_repaired', 0) + 1
                        m = m2
                    else:
                        # concretise the narrower factor of every product (to its value in the light model, then to a few
                        # constants): the definitions become multiplications by constants, which the solver handles
                        self.stats['exact_product_queries'] = self.stats.get('exact_product_queries', 0) + 1
                        light = m
                        r, m = z3.unknown, None
                        s2.set('timeout', min(exact_timeout_ms or self.timeout_ms, 10000))
                        for attempt in ('model', 1, -1, 'hi', 'lo', 3):
                            fix = []
                            for pv, e, fac in self.prods:
                                if attempt == 'model':
                                    fix.append(fac.bv == light.eval(fac.bv, model_completion=True))
                                else:
                                    c = fac.hi if attempt == 'hi' else fac.lo if attempt == 'lo' else attempt
                                    if fac.lo <= c <= fac.hi:
                                        fix.append(fac.bv == z3.BitVecVal(c, fac.w))
                            s2.push()
                            try:
                                for c in fix + list(self.defs):
                                    s2.add(c)
                                rr = s2.check()
                                if rr == z3.sat:
                                    r, m = rr, s2.model()
                            finally:
                                s2.pop()
                            if r == z3.sat:
                                break
                        if r != z3.sat and exact_timeout_ms is None:
                            # verdict query: last resort, the exact definitions in a separate process under a hard time limit
                            r, m = self._external_check(conds + list(self.defs), min(self.timeout_ms / 1000.0, 20))
                        s2.set('timeout', self.timeout_ms)
            finally:
                if dirty:
                    # abandon the scratch solver instead of popping it; later verdicts of this path re-assert the path condition
                    self._graveyard.append(s2)
                    self._s2, self._scope_path = None, None
                else:
                    s2.pop()
                    if exact_timeout_ms is not None:
                        s2.set('timeout', self.timeout_ms)
        finally:
            self.stats['solver_s'] += time.time() - t
            self.stats['solver_queries'] += 1
        return str(r), m

    def begin_verdicts(self, path):
        """assert base + path condition once; the verdict queries of this path are then incremental"""
        s2 = self._scratch()
        s2.push()
        for c in self.base + self.defs_light + list(path.pc):
            s2.add(c)
        self._scope_path = path

    def end_verdicts(self):
        if self._scope_path is not None:
            self._scope_path = None
            self._scratch().pop()

    def _scratch(self):
        if getattr(self, '_s2', None) is None:
            self._s2 = z3.SolverFor('QF_BV')
            self._s2.set('timeout', self.timeout_ms)
        return self._s2

    def smt2_in_path(self, path, *extra):
        s = z3.Solver()
        for c in self.base + self.defs:
            s.add(c)
        for c in path.pc:
            s.add(c)
        for c in extra:
            s.add(c)
        txt = s.to_smt2()
        for a in ('bvsdiv', 'bvsrem', 'bvudiv', 'bvurem', 'bvsmod'):
            txt = txt.replace(a + '_i', a)        # z3-internal 'divisor known non-zero' variants (every division here is guarded)
        return '(set-logic QF_BV)\n' + txt
