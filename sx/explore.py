"""Path exploration by re-execution with a decision prefix; one long-lived QF_BV solver per process."""
import time
import z3
from . import term as T
from .term import Abort, OutOfModel, Undecided, PathCap
import os
DEBUG = bool(os.environ.get('SX_DEBUG'))


class Path:
    __slots__ = ('decisions', 'pc', 'result', 'exc', 'model', 'not_encoded', 'undecided')

    def __init__(self, decisions, pc, result=None, exc=None, model=None, not_encoded=None, undecided=None):
        self.decisions, self.pc, self.result, self.exc, self.model = decisions, pc, result, exc, model
        self.not_encoded, self.undecided = not_encoded, undecided


class Explorer:
    def __init__(self, timeout_ms=60000, max_paths=20000):
        self.solver = z3.SolverFor('QF_BV')
        self.solver.set('timeout', timeout_ms)
        self.timeout_ms = timeout_ms
        self.max_paths = max_paths
        self.base = []            # domain constraints of the symbolic inputs (z3 bools)
        self.defs, self.defs_light, self._prod = [], [], {}
        self.pc = []
        self.decisions = []
        self.prefix = []
        self.model = None         # a model of base + pc (or None if unknown)
        self.stats = dict(paths=0, infeasible=0, solver_queries=0, solver_s=0.0, syntactic=0, branch_solver=0,
                          not_encoded=0, undecided=0, cache_hits=0)
        self._in_path = False
        self._in_light = False
        self._s2 = None
        self._scope_path = None
        self._decided, self._keep = {}, []

    # ---- solver plumbing
    def reset(self, base):
        """new configuration: fresh domain constraints"""
        self.solver.reset()
        self.solver.set('timeout', self.timeout_ms)
        self.base = list(base)
        for c in self.base:
            self.solver.add(c)
        self.pc, self.decisions, self.prefix, self.model = [], [], [], None
        self.defs, self.defs_light, self._prod = [], [], {}

    def product(self, a, b, lo, hi):
        """symbolic x symbolic product as a fresh variable p with the definition p == a*b kept on the side:
        the lifted code and the specification then share one syntactic term for the product"""
        ka, kb = a.bv.get_id(), b.bv.get_id()
        key = (ka, kb) if ka <= kb else (kb, ka)
        hit = self._prod.get(key)
        if hit is not None:
            return hit[0]
        w = max(T.bits_for(lo, hi), a.w, b.w)
        p = z3.BitVec(T.fresh_name('prod'), w)
        rng = z3.And(p >= z3.BitVecVal(lo, w), p <= z3.BitVecVal(hi, w))
        d = z3.And(p == a.ext(w) * b.ext(w), rng)
        r = T.mk(p, lo, hi)
        self._prod[key] = (r, a, b)
        self.defs.append(d)
        self.defs_light.append(rng)
        self.solver.add(rng)
        return r

    def _check(self, *extra):
        t = time.time()
        self.solver.push()
        try:
            for c in extra:
                self.solver.add(c)
            r = self.solver.check()
            m = self.solver.model() if r == z3.sat else None
        finally:
            self.solver.pop()
        self.stats['solver_s'] += time.time() - t
        self.stats['solver_queries'] += 1
        if DEBUG and time.time() - t > 1.0:
            import traceback
            print('SLOW QUERY %.1fs' % (time.time() - t), [str(c)[:400] for c in extra], ''.join(traceback.format_stack(limit=14)[-12:-2]))
        if r == z3.unknown:
            raise Undecided(self.solver.reason_unknown())
        return r == z3.sat, m

    def _holds(self, cond):
        """does the cached model satisfy cond ?"""
        if self.model is None:
            return None
        try:
            v = self.model.eval(cond, model_completion=True)
        except z3.Z3Exception:
            return None
        if z3.is_true(v):
            return True
        if z3.is_false(v):
            return False
        return None

    def feasible(self, cond):
        h = self._holds(cond)
        if h is True:
            self.stats['cache_hits'] += 1
            return True, self.model
        return self._check(cond)

    # ---- API used by terms / shims
    def branch(self, cond):
        cond = z3.simplify(cond)
        if z3.is_true(cond):
            self.stats['syntactic'] += 1
            return True
        if z3.is_false(cond):
            self.stats['syntactic'] += 1
            return False
        # a condition already decided on this path (same term) needs no new decision
        cid = cond.get_id()
        known = self._decided.get(cid)
        if known is not None:
            self.stats['syntactic'] += 1
            return known
        nid = z3.simplify(z3.Not(cond)).get_id()
        i = len(self.decisions)
        if i < len(self.prefix):
            d = self.prefix[i]
            self.model = None if self._holds(cond if d else z3.Not(cond)) is not True else self.model
        else:
            self.stats['branch_solver'] += 1
            st, mt = self.feasible(cond)
            sf, mf = self.feasible(z3.Not(cond))
            if st and sf:
                self.worklist.append(self.decisions + [False])
                d, self.model = True, mt
            elif st:
                d, self.model = True, mt
            elif sf:
                d, self.model = False, mf
            else:
                raise Abort()
        self.decisions.append(d)
        c = cond if d else z3.Not(cond)
        self._decided[cid] = d
        self._decided[nid] = not d
        self._keep.append(cond)
        self.pc.append(c)
        self.solver.add(c)
        return d

    def assume(self, cond):
        """add an assumption to the current path (Abort if it makes the path infeasible)"""
        if isinstance(cond, bool):
            if not cond:
                raise Abort()
            return
        e = z3.simplify(T.lift_bool(cond))
        if z3.is_true(e):
            return
        if z3.is_false(e):
            raise Abort()
        ok, m = self.feasible(e)
        if not ok:
            raise Abort()
        self.model = m
        self.pc.append(e)
        self.solver.add(e)

    def implied(self, cond):
        """does base + pc imply cond ?"""
        if isinstance(cond, bool):
            return cond
        if isinstance(cond, T.SBool):
            cond = cond.e
        cond = z3.simplify(cond)
        if z3.is_true(cond):
            return True
        if z3.is_false(cond):
            return False
        if self._holds(z3.Not(cond)) is True:
            return False
        sat, m = self._check(z3.Not(cond))
        return not sat

    def current_model(self):
        if self.model is None:
            ok, m = self._check()
            if not ok:
                raise Abort()
            self.model = m
        return self.model

    # ---- exploration
    def run(self, fn):
        """yield a Path for every feasible execution of fn()"""
        self.worklist = [[]]
        n = 0
        while self.worklist:
            if n >= self.max_paths:
                raise PathCap('more than %d paths' % self.max_paths)
            self.prefix = self.worklist.pop()
            self.decisions, self.pc, self.model = [], [], None
            self._decided, self._keep = {}, []
            self.solver.push()
            for d in self.defs_light:
                self.solver.add(d)
            T.set_explorer(self)
            res = exc = ne = und = None
            try:
                try:
                    res = fn()
                except Abort:
                    self.stats['infeasible'] += 1
                    continue
                except OutOfModel as e:
                    ne = str(e)
                    self.stats['not_encoded'] += 1
                except Undecided as e:
                    und = str(e)
                    self.stats['undecided'] += 1
                except PathCap:
                    raise
                except Exception as e:            # exception raised by the lifted code: part of the outcome
                    exc = e
                    if DEBUG:
                        import traceback
                        traceback.print_exc()
                n += 1
                self.stats['paths'] += 1
                model = None
                if not self.defs:
                    try:
                        model = self.current_model()
                    except (Abort, Undecided):
                        model = None
                p = Path(list(self.decisions), list(self.pc), res, exc, model, ne, und)
                yield p
            finally:
                self.solver.pop()
                T.set_explorer(self)

    def check_in_path(self, path, *extra, exact_timeout_ms=None):
        """satisfiability of base + path.pc + extra (verdict queries, witnesses).
        Symbolic products are first left uninterpreted (only their ranges are kept): an over-approximation that is
        sound for `unsat`.  A `sat` answer is re-checked with the exact definitions p == a*b."""
        t = time.time()
        s2 = self._scratch()
        r, m = None, None
        try:
            scoped = self._scope_path is path
            s2.push()
            try:
                for c in (list(extra) if scoped else self.base + self.defs_light + list(path.pc) + list(extra)):
                    s2.add(c)
                r = s2.check()
                m = s2.model() if r == z3.sat else None
                if r == z3.sat and self.defs:
                    self.stats['exact_product_queries'] = self.stats.get('exact_product_queries', 0) + 1
                    if exact_timeout_ms is not None:
                        s2.set('timeout', exact_timeout_ms)
                    for c in self.defs:
                        s2.add(c)
                    r = s2.check()
                    m = s2.model() if r == z3.sat else None
            finally:
                s2.pop()
                if exact_timeout_ms is not None:
                    s2.set('timeout', self.timeout_ms)
        finally:
            self.stats['solver_s'] += time.time() - t
            self.stats['solver_queries'] += 1
        return str(r), m

    def begin_verdicts(self, path):
        """assert base + path condition once; the verdict queries of this path are then incremental"""
        s2 = self._scratch()
        s2.push()
        for c in self.base + self.defs_light + list(path.pc):
            s2.add(c)
        self._scope_path = path

    def end_verdicts(self):
        if self._scope_path is not None:
            self._scope_path = None
            self._scratch().pop()

    def _scratch(self):
        if getattr(self, '_s2', None) is None:
            self._s2 = z3.SolverFor('QF_BV')
            self._s2.set('timeout', self.timeout_ms)
        return self._s2

    def smt2_in_path(self, path, *extra):
        s = z3.Solver()
        for c in self.base + self.defs:
            s.add(c)
        for c in path.pc:
            s.add(c)
        for c in extra:
            s.add(c)
        txt = s.to_smt2()
        for a in ('bvsdiv', 'bvsrem', 'bvudiv', 'bvurem', 'bvsmod'):
            txt = txt.replace(a + '_i', a)        # z3-internal 'divisor known non-zero' variants (every division here is guarded)
        return '(set-logic QF_BV)\n' + txt
