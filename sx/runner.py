"""Per-configuration checking: explore the lifted harness, discharge verdict queries, replay, validate witnesses."""
import builtins
import importlib
import json
import os
import shutil
import sys
import tempfile
import time
import traceback
from fractions import Fraction

import z3

from . import term as T
from . import sstr as S
from . import explore, loader, obs as O, spec as SP, symnp
from .term import OutOfModel, Abort, Undecided, PathCap

VERIF = os.path.dirname(os.path.dirname(os.path.abspath(__file__)))
REPO = os.environ.get('SX_REPO', '/repo')
_isinstance = builtins.isinstance


class ConfigTimeout(BaseException):
    pass


# ------------------------------------------------------------------------------------------------ inputs

class Inputs:
    def __init__(self, spec):
        self.spec = spec
        self.sym = {}
        self.dom = []
        self.dbl = []          # "is a double" side constraints for float inputs (z3 bools / True)
        for name, s in spec.items():
            k = s['kind']
            if k == 'int':
                v, d = T.int_var(name, s['lo'], s['hi'])
                self.sym[name] = v
                self.dom.append(d)
            elif k == 'float':
                v, d = T.int_var(name, s['lo'], s['hi'])
                self.sym[name] = T.SFloat(v, s['exp']) if _isinstance(v, T.SInt) else T.mkf(v, s['exp'])
                self.dom.append(d)
                sig = s.get('sig', 53)
                db = SP.is_double(v, sig)
                if db is not True:
                    if sig < 53:
                        self.dom.append(T.lift_bool(db))      # float16/float32 carriers: part of the domain
                    else:
                        self.dbl.append(T.lift_bool(db))
            elif k == 'bool':
                self.sym[name] = T.bool_var(name)
            elif k == 'str':
                chars = []
                for i in range(s['len']):
                    c, d = S.char_var('%s_%d' % (name, i), s['alphabet'] if _isinstance(s['alphabet'], str) else s['alphabet'][i])
                    chars.append(c)
                    self.dom.append(d)
                self.sym[name] = S.norm(chars)
            elif k == 'const':
                self.sym[name] = s['value']
            else:
                raise ValueError(k)
        for c in spec.get('__assume__', []) if False else []:
            pass

    def concretise(self, model):
        out = {}
        for name, s in self.spec.items():
            k = s['kind']
            v = self.sym[name]
            if k == 'float':
                n = T.eval_under(model, v.num) if _isinstance(v, T.SFloat) else None
                if n is None:
                    out[name] = v
                else:
                    fr = Fraction(n) * Fraction(2) ** s['exp']
                    f = float(fr)
                    out[name] = f if Fraction(f) == fr else fr
            elif k == 'const':
                out[name] = v
            else:
                out[name] = T.eval_under(model, v)
        return out

    def all_doubles(self, conc):
        return not builtins.any(_isinstance(v, Fraction) for v in conc.values())


def inputs_from_json(spec, data):
    return {k: O.unjson(v) for k, v in data.items()}


# ------------------------------------------------------------------------------------------------ known findings

class Known:
    def __init__(self, path=None):
        path = path or os.path.join(VERIF, 'known_findings.json')
        self.entries = []
        if os.path.exists(path):
            self.entries = json.load(open(path)).get('findings', [])
        self._regions = None

    def regions_mod(self):
        if self._regions is None:
            sys.path.insert(0, VERIF) if VERIF not in sys.path else None
            self._regions = importlib.import_module('props.regions')
        return self._regions

    def open_for(self, pid):
        return [e for e in self.entries if e['property'] == pid and e.get('status') == 'open']

    def region(self, entry, cfg, inp):
        return getattr(self.regions_mod(), entry['region'])(cfg, inp)

    def match(self, pid, cfg, conc_inp):
        for e in self.open_for(pid):
            try:
                r = self.region(e, cfg, conc_inp)
            except Exception:
                r = False
            if r is True:
                return e
        return None


# ------------------------------------------------------------------------------------------------ running a harness on the real code

def _set_age(cfg):
    from props import common
    common.AGE = cfg.get('age') if _isinstance(cfg, dict) else None


def run_real(prop, R, cfg, conc_inp):
    import warnings
    _set_age(cfg)
    with warnings.catch_warnings():
        warnings.simplefilter('ignore')
        try:
            return prop.run(R, cfg, dict(conc_inp))
        except Exception as e:
            return {'__exc__': type(e).__name__, '__msg__': str(e)[:200]}


def eval_post(prop, cfg, inp, ob):
    """list of (name, cond) ; an unexpected exception is itself a failed obligation unless the property handles it"""
    if _isinstance(ob, dict) and '__exc__' in ob and not getattr(prop, 'HANDLES_EXC', False):
        return [('no_exception:' + ob['__exc__'], False)]
    return list(prop.post(cfg, inp, ob))


def failed_names(obls):
    bad = []
    for name, c in obls:
        if _isinstance(c, T.SBool) or _isinstance(c, T.Poison):
            raise RuntimeError('postcondition on concrete data did not reduce to a bool: %s' % name)
        if not c:
            bad.append(name)
    return bad


# ------------------------------------------------------------------------------------------------ one configuration

class Ctx:
    def __init__(self, repo=REPO, mutate=None, timeout_ms=60000, max_paths=20000):
        self.repo = repo
        self.tmp = None
        if mutate:
            self.tmp = tempfile.mkdtemp(prefix='sx_canary_')
            shutil.copytree(os.path.join(repo, 'fxpmath'), os.path.join(self.tmp, 'fxpmath'))
            for fname, subs in mutate.items():
                p = os.path.join(self.tmp, 'fxpmath', fname)
                src = open(p).read()
                for old, new in subs:
                    if old not in src:
                        raise RuntimeError('canary anchor not found in %s: %r' % (fname, old))
                    src = src.replace(old, new, 1)
                open(p, 'w').write(src)
            repo = self.tmp
        self.L = loader.load_lifted(repo)
        self.R = loader.load_real(repo)
        self.ex = explore.Explorer(timeout_ms=timeout_ms, max_paths=max_paths)
        self.known = Known()

    def close(self):
        self.L.unload()
        self.R.unload()
        if self.tmp:
            shutil.rmtree(self.tmp, ignore_errors=True)
            self.tmp = None


def _short(v, n=300):
    s = repr(v)
    return s if len(s) <= n else s[:n] + '...'


def check_config(prop, cfg, ctx, validate=True, want_smt2=0):
    """returns a JSON-able record"""
    t0 = time.time()
    ex = ctx.ex
    q0, s0 = ex.stats['solver_queries'], ex.stats['solver_s']
    br0, syn0 = ex.stats['branch_solver'], ex.stats['syntactic']
    rec = dict(cfg=cfg, paths=0, obligations=0, syntactic=0, by_solver=0, undecided=0, not_encoded=[], violations=[],
               known=[], divergences=[], validated=0, validation_skipped=0, samples=[], smt2=[], errors=[], overapprox_only=0)
    try:
        inp = Inputs(prop.inputs(cfg))
    except Exception as e:
        rec['errors'].append('inputs(): ' + repr(e))
        return rec
    dom = list(inp.dom)
    if hasattr(prop, 'assume'):
        a = prop.assume(cfg, inp.sym)
        if a is False:
            return rec
        if a is not True:
            dom.append(T.lift_bool(a))
    ex.reset(dom)
    dbl = inp.dbl
    known_hit = set()

    def harness():
        _set_age(cfg)
        try:
            return prop.run(ctx.L, cfg, dict(inp.sym))
        except (Abort, OutOfModel, Undecided, PathCap):
            raise

    try:
        for path in ex.run(harness):
            rec['paths'] += 1
            if path.not_encoded is not None:
                rec['not_encoded'].append(dict(reason=path.not_encoded, decisions=len(path.decisions)))
                # still test the witness concretely on the real code
                _concrete_probe(prop, cfg, ctx, inp, path, rec, dbl)
                continue
            if path.undecided is not None:
                rec['undecided'] += 1
                continue
            ob = path.result if path.exc is None else {'__exc__': type(path.exc).__name__, '__msg__': str(path.exc)[:200]}
            try:
                obls = eval_post(prop, cfg, inp.sym, ob)
            except OutOfModel as e:
                rec['not_encoded'].append(dict(reason='post: ' + str(e), decisions=len(path.decisions)))
                _concrete_probe(prop, cfg, ctx, inp, path, rec, dbl)
                continue
            except Exception as e:
                rec['errors'].append('post(): %s\n%s' % (repr(e), traceback.format_exc()[-1500:]))
                continue
            ex.begin_verdicts(path)
            for name, cond in obls:
                rec['obligations'] += 1
                if cond is True:
                    rec['syntactic'] += 1
                    continue
                if _isinstance(cond, T.Poison):
                    rec['not_encoded'].append(dict(reason='obligation %s is poisoned: %s' % (name, cond.why), decisions=len(path.decisions)))
                    continue
                neg = z3.Not(T.lift_bool(cond)) if cond is not False else z3.BoolVal(True)
                excl = []
                while True:
                    # decide on the over-approximated input set first (sound for unsat) ...
                    r, m = ex.check_in_path(path, neg, *excl)
                    if r == 'unsat':
                        rec['by_solver'] += 1
                        if want_smt2 and len(rec['smt2']) < want_smt2:
                            rec['smt2'].append(dict(obligation=name, expect='unsat', text=ex.smt2_in_path(path, neg, *excl)))
                        break
                    if r != 'sat':
                        rec['undecided'] += 1
                        rec.setdefault('undecided_names', []).append(name)
                        break
                    # ... and ask for a witness made of real doubles only when there is a counterexample
                    if dbl and not inp.all_doubles(inp.concretise(m)):
                        r, m = ex.check_in_path(path, neg, *(dbl + excl))
                        if r == 'unsat':
                            rec['overapprox_only'] += 1       # only non-double dyadics violate: inconclusive, never a violation
                            rec['undecided'] += 1
                            break
                        if r != 'sat':
                            rec['undecided'] += 1
                            break
                    conc = inp.concretise(m)
                    real_ob = run_real(prop, ctx.R, cfg, conc)
                    try:
                        bad = failed_names(eval_post(prop, cfg, conc, real_ob))
                    except Exception as e:
                        rec['errors'].append('concrete post(): %s\n%s' % (repr(e), traceback.format_exc()[-1500:]))
                        break
                    if not bad:
                        sym_ob = T.eval_under(m, ob)
                        rec['divergences'].append(dict(obligation=name, cfg=cfg, inputs=O.jsonable(conc), lifted=_short(sym_ob), real=_short(real_ob)))
                        break
                    kf = ctx.known.match(prop.ID, cfg, conc)
                    v = dict(obligation=name, failed=bad, inputs=O.jsonable(conc), observed=O.jsonable(real_ob), cfg=cfg)
                    if kf is not None:
                        if kf['id'] not in known_hit:
                            known_hit.add(kf['id'])
                            rec['known'].append(dict(id=kf['id'], what=kf['what'], example=v))
                        reg = ctx.known.region(kf, cfg, inp.sym)
                        if reg is True:
                            break                         # whole configuration lies inside the known region
                        excl.append(z3.Not(T.lift_bool(reg)))
                        continue                          # re-solve outside the known region
                    rec['violations'].append(v)
                    break
            ex.end_verdicts()
            # per-path differential validation of the encoding
            if validate:
                _validate_path(prop, cfg, ctx, inp, path, ob, rec, dbl)
            if len(rec['samples']) < 2:
                rec['samples'].append(dict(decisions=[int(d) for d in path.decisions][:40], n_obligations=len(obls),
                                           pc_conjuncts=len(path.pc), outcome=_short(ob, 200)))
    except PathCap as e:
        ex.end_verdicts()
        rec['errors'].append('path cap: ' + str(e))
    except ConfigTimeout as e:
        ex.end_verdicts()
        rec['errors'].append('timeout: ' + str(e))
    except Exception as e:
        ex.end_verdicts()
        rec['errors'].append('exploration: %s\n%s' % (repr(e), traceback.format_exc()[-2000:]))
    rec['solver_queries'] = ex.stats['solver_queries'] - q0
    rec['solver_s'] = round(ex.stats['solver_s'] - s0, 4)
    rec['branch_decisions'] = (ex.stats['branch_solver'] - br0)
    rec['syntactic_branches'] = ex.stats['syntactic'] - syn0
    rec['wall_s'] = round(time.time() - t0, 3)
    return rec


def _witness(ctx, inp, path, dbl):
    m = path.model
    if m is None or (dbl and not inp.all_doubles(inp.concretise(m))):
        r, m2 = ctx.ex.check_in_path(path, *dbl, exact_timeout_ms=3000)
        if r != 'sat':
            return None
        m = m2
    conc = inp.concretise(m)
    if not inp.all_doubles(conc):
        return None
    return m, conc


def _validate_path(prop, cfg, ctx, inp, path, ob, rec, dbl):
    w = _witness(ctx, inp, path, dbl)
    if w is None:
        rec['validation_skipped'] += 1
        return
    m, conc = w
    real_ob = run_real(prop, ctx.R, cfg, conc)
    try:
        sym_ob = T.eval_under(m, ob)
    except OutOfModel as e:
        rec['validation_skipped'] += 1
        return
    d = O.diff(_strip(sym_ob), _strip(real_ob))
    if d:
        rec['divergences'].append(dict(obligation='<witness validation>', cfg=cfg, inputs=O.jsonable(conc), diff=d[:6]))
    else:
        rec['validated'] += 1


def _strip(ob):
    if _isinstance(ob, dict):
        return {k: v for k, v in ob.items() if not str(k).startswith('__msg')}
    return ob


def _extreme_witnesses(ctx, inp, path, dbl, limit=16):
    """a few more witnesses of the path: each numeric input pinned to the ends (and the middle) of its window, when feasible"""
    out = []
    for name, sp in inp.spec.items():
        if sp['kind'] not in ('int', 'float') or _builtin_len(out) >= limit:
            continue
        v = inp.sym[name]
        num = v.num if _isinstance(v, T.SFloat) else v
        if not _isinstance(num, T.SInt):
            continue
        p2 = [(1 << (abs(b).bit_length() - 1)) * (1 if b > 0 else -1) for b in (sp['hi'], sp['lo']) if b]
        p2 += [q // 16 * k for q in p2 for k in (8, 12, 10, 14, 9, 11, 13, 15, 5, 7)]      # few significant bits: representable in narrow float carriers too
        for val in [sp['hi'], sp['lo']] + p2 + [sp['hi'] // 2 + 1, sp['lo'] // 2 - 1]:
            c = T.icmp(num, val, '==')
            if c is False:
                continue
            r, m = ctx.ex.check_in_path(path, T.lift_bool(c), *dbl, exact_timeout_ms=3000)
            if r == 'sat':
                conc = inp.concretise(m)
                if inp.all_doubles(conc):
                    out.append((m, conc))
    return out


_builtin_len = builtins.len


def _concrete_probe(prop, cfg, ctx, inp, path, rec, dbl):
    w = _witness(ctx, inp, path, dbl)
    cands = ([w] if w is not None else []) + _extreme_witnesses(ctx, inp, path, dbl)
    for m, conc in cands:
        if _probe_one(prop, cfg, ctx, conc, rec):
            return


def _probe_one(prop, cfg, ctx, conc, rec):
    real_ob = run_real(prop, ctx.R, cfg, conc)
    try:
        bad = failed_names(eval_post(prop, cfg, conc, real_ob))
    except Exception as e:
        return False
    if bad:
        kf = ctx.known.match(prop.ID, cfg, conc)
        v = dict(obligation='<concrete probe of an un-encoded path>', failed=bad, inputs=O.jsonable(conc), observed=O.jsonable(real_ob), cfg=cfg)
        if kf is not None:
            rec['known'].append(dict(id=kf['id'], what=kf['what'], example=v))
        else:
            rec['violations'].append(v)
        return True
    return False


# ------------------------------------------------------------------------------------------------ replay

def replay(prop, data, repo=REPO):
    R = loader.load_real(repo)
    conc = {k: O.unjson(v) for k, v in data['inputs'].items()}
    ob = run_real(prop, R, data['cfg'], conc)
    bad = failed_names(eval_post(prop, data['cfg'], conc, ob))
    return bad, ob
