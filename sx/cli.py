"""./check <property> quick|thorough   |   ./check <property> --replay <file>

Exit codes: 0 every obligation inside the explored bounds is unsat (KNOWN-FINDING lines allowed);
            1 a replayed counterexample outside the known findings (VIOLATION line printed);
            2 harness error (encoding divergence, canary missed, un-encoded path in a claimed domain, undecided query).
"""
import importlib
import json
import multiprocessing as mp
import os
import sys
import time
import traceback

VERIF = os.path.dirname(os.path.dirname(os.path.abspath(__file__)))
if VERIF not in sys.path:
    sys.path.insert(0, VERIF)

_CTX = {}


def _prop(pid):
    return importlib.import_module('props.' + pid)


def _worker(item):
    """item = (pid, cfg, mutate_key, mutate, opts)"""
    from sx import runner
    if not _CTX:
        import faulthandler, signal as _sig
        faulthandler.register(_sig.SIGUSR1, all_threads=True)      # kill -USR1 <worker> prints where it is, even inside the solver
    pid, cfg, mkey, mutate, opts = item
    try:
        key = (mkey,)
        if key not in _CTX:
            _CTX[key] = runner.Ctx(repo=opts['repo'], mutate=mutate, timeout_ms=opts['timeout_ms'], max_paths=opts['max_paths'])
        ctx = _CTX[key]
        prop = _prop(pid)
        cov = _Cov(ctx.L.repo) if opts.get('cover') else None
        if cov:
            cov.start()
        import signal

        def _alarm(sig, frm):
            raise runner.ConfigTimeout('configuration exceeded %d s' % opts['cfg_timeout'])
        signal.signal(signal.SIGALRM, _alarm)
        signal.alarm(opts['cfg_timeout'])
        try:
            rec = runner.check_config(prop, cfg, ctx, validate=opts.get('validate', True), want_smt2=opts.get('want_smt2', 0))
            if rec.get('divergences') and not rec.get('violations'):
                # a lifted/real disagreement must be reproducible to count: re-run the configuration once in a fresh context
                first = rec['divergences']
                try:
                    ctx.close()
                except Exception:
                    pass
                _CTX[key] = ctx = runner.Ctx(repo=opts['repo'], mutate=mutate, timeout_ms=opts['timeout_ms'], max_paths=opts['max_paths'])
                rec = runner.check_config(prop, cfg, ctx, validate=opts.get('validate', True), want_smt2=opts.get('want_smt2', 0))
                if not rec.get('divergences'):
                    rec['transient_divergences'] = first[:3]
        finally:
            signal.alarm(0)
            if cov:
                rec_cov = cov.stop()
        if cov:
            rec['covered'] = rec_cov
        rec['canary'] = mkey
        return rec
    except BaseException as e:
        return dict(cfg=cfg, canary=mkey, errors=['worker: %r\n%s' % (e, traceback.format_exc()[-2000:])], paths=0, obligations=0,
                    syntactic=0, by_solver=0, undecided=0, not_encoded=[], violations=[], known=[], divergences=[], validated=0,
                    validation_skipped=0, samples=[], smt2=[], solver_queries=0, solver_s=0.0, branch_decisions=0, syntactic_branches=0,
                    wall_s=0.0, overapprox_only=0)


def _cleanup(_):
    for c in _CTX.values():
        try:
            c.close()
        except Exception:
            pass
    _CTX.clear()
    return True


class _Cov:
    """which functions of the lifted source were executed symbolically (sys.monitoring, PY_START)"""
    TOOL = 3

    def __init__(self, repo):
        self.prefix = os.path.join(repo, 'fxpmath') + os.sep
        self.seen = set()

    def start(self):
        m = sys.monitoring
        try:
            m.use_tool_id(self.TOOL, 'sx-cov')
        except ValueError:
            pass

        def on_start(code, off):
            if code.co_filename.startswith(self.prefix):
                self.seen.add('%s:%s' % (os.path.basename(code.co_filename), code.co_qualname))
            return m.DISABLE
        m.register_callback(self.TOOL, m.events.PY_START, on_start)
        m.set_events(self.TOOL, m.events.PY_START)
        m.restart_events()

    def stop(self):
        m = sys.monitoring
        m.set_events(self.TOOL, 0)
        m.register_callback(self.TOOL, m.events.PY_START, None)
        try:
            m.free_tool_id(self.TOOL)
        except Exception:
            pass
        return sorted(self.seen)


def main(argv):
    if len(argv) < 2:
        print(__doc__)
        return 2
    pid = argv[0]
    prop = _prop(pid)
    from sx import runner, loader, obs as O
    repo = os.environ.get('SX_REPO', '/repo')
    if argv[1] == '--replay':
        data = json.load(open(argv[2]))
        bad, ob = runner.replay(prop, data, repo)
        if bad:
            print('replay: obligations failing on the real code:', bad)
            print('observed:', O.jsonable(ob))
            print('VIOLATION property=%s replay=%s' % (pid, argv[2]))
            return 1
        print('replay: the recorded input no longer violates %s' % pid)
        return 0
    tier = os.environ.get('VERIF_TIER') or argv[1]
    if tier not in ('quick', 'thorough'):
        tier = argv[1]
    seed = int(os.environ.get('VERIF_SEED', '0') or 0)
    jobs = int(os.environ.get('SX_JOBS', '0') or 0) or min(16, os.cpu_count() or 1)
    t0 = time.time()
    cfgs = prop.configs(tier, seed)
    if getattr(prop, 'AGEABLE', False):
        # every fourth configuration builds its operands as objects with a past (props/common.py, AGE)
        import random as _random
        from props import common as _common
        _rng = _random.Random(seed * 7919 + 13)
        for i, c in enumerate(cfgs):
            if i % 4 == 1 and 'age' not in c:
                c['age'] = _rng.choice(_common.AGE_ROUTES)
    limit = int(os.environ.get('SX_LIMIT', '0') or 0)
    if limit:
        cfgs = cfgs[:limit]
    opts = dict(repo=repo, timeout_ms=int(os.environ.get('SX_TIMEOUT_MS', '60000')), max_paths=int(getattr(prop, 'MAX_PATHS', 20000)),
                validate=True, cover=False, want_smt2=0, cfg_timeout=int(os.environ.get('SX_CFG_TIMEOUT', '0') or 0) or int(getattr(prop, 'CFG_TIMEOUT', {}).get(tier, 600)))
    items = []
    # coverage and SMT-LIB2 export on a few configurations
    n_cross = 200 if tier == 'thorough' else 12
    step = max(1, len(cfgs) // max(1, min(len(cfgs), 40)))
    for i, c in enumerate(cfgs):
        o = dict(opts)
        if i % step == 0:
            o['cover'] = True
        if i % max(1, len(cfgs) // n_cross) == 0:
            o['want_smt2'] = 1
        items.append((pid, c, None, None, o))
    canaries = getattr(prop, 'CANARIES', [])
    if os.environ.get('SX_NO_CANARY'):
        canaries = []
    for ci, can in enumerate(canaries):
        for c in can['cfgs']:
            items.append((pid, c, 'canary%d' % ci, can['mutate'], dict(opts, validate=False)))
    # expensive configurations first (the property may estimate cost), then dynamic scheduling one item at a time
    costf = getattr(prop, 'cost', None)
    if costf is not None:
        items.sort(key=lambda it: -costf(it[1]))
    results = []
    if jobs == 1:
        for it in items:
            results.append(_worker(it))
        _cleanup(None)
    else:
        ctx = mp.get_context('fork')
        with ctx.Pool(jobs) as pool:
            for r in pool.imap_unordered(_worker, items, chunksize=(1 if costf is not None else max(1, min(8, len(items) // (jobs * 8) or 1)))):
                results.append(r)
            pool.map(_cleanup, range(jobs * 2))
    return finish(pid, prop, tier, seed, repo, results, canaries, time.time() - t0)


def auto_bounds(prop, cfgs):
    """the bounds actually run: distinct values of every configuration key, and the windows of the symbolic inputs"""
    import re as _re
    space = {}
    for c in cfgs:
        for k, v in c.items():
            space.setdefault(k, set()).add(json.dumps(v, sort_keys=True))
    cs = {}
    for k, vs in sorted(space.items()):
        vals = sorted(vs)
        dec = [json.loads(v) for v in vals]
        if len(vals) <= 24:
            cs[k] = dec
        elif all(isinstance(d, list) and len(d) == 3 and isinstance(d[0], bool) for d in dec):
            cs[k] = dict(distinct_formats=len(dec), signed=sorted(set(d[0] for d in dec)), n_word=[min(d[1] for d in dec), max(d[1] for d in dec)],
                         n_frac=[min(d[2] for d in dec), max(d[2] for d in dec)], n_word_values=sorted(set(d[1] for d in dec))[:40])
        elif all(isinstance(d, int) and not isinstance(d, bool) for d in dec):
            cs[k] = dict(distinct=len(dec), min=min(dec), max=max(dec))
        else:
            cs[k] = dict(distinct=len(vals), examples=dec[:6])
    win = {}
    for c in cfgs:
        try:
            sp = prop.inputs(c)
        except Exception:
            continue
        for name, d in sp.items():
            key = _re.sub(r'\d+$', '', name) + ':' + d['kind']
            w = win.setdefault(key, dict(kind=d['kind'], configs=0))
            w['configs'] += 1
            if d['kind'] in ('int', 'float'):
                w['min_lo'] = min(w.get('min_lo', d['lo']), d['lo'])
                w['max_hi'] = max(w.get('max_hi', d['hi']), d['hi'])
                if d['kind'] == 'float':
                    w['min_exp'] = min(w.get('min_exp', d['exp']), d['exp'])
                    w['max_exp'] = max(w.get('max_exp', d['exp']), d['exp'])
            elif d['kind'] == 'str':
                w['max_len'] = max(w.get('max_len', 0), d['len'])
    for w in win.values():
        for k in ('min_lo', 'max_hi'):
            if k in w and abs(w[k]) >= 1 << 64:
                w[k] = ('-' if w[k] < 0 else '') + '2^%d-ish (%d bits)' % (abs(w[k]).bit_length(), abs(w[k]).bit_length())
    return dict(configuration_space=cs, symbolic_input_windows=win,
                meaning='every value inside the listed windows is covered by the solver for every listed configuration that was run; '
                        'configurations, formats, shapes and magnitudes not listed are outside the claim of this run',
                note=getattr(prop, 'BOUNDS_NOTE', 'see assumptions'))


def finish(pid, prop, tier, seed, repo, results, canaries, wall):
    from sx import loader, crosscheck
    main_r = [r for r in results if r.get('canary') is None]
    tot = lambda k: sum(r.get(k, 0) for r in main_r)
    violations = [v for r in main_r for v in r['violations']]
    known = {}
    for r in main_r:
        for k in r['known']:
            known.setdefault(k['id'], k)
    divergences = [d for r in main_r for d in r['divergences']]
    not_encoded = [dict(cfg=r['cfg'], **n) for r in main_r for n in r['not_encoded']]
    errors = [(r['cfg'], e) for r in main_r for e in r.get('errors', [])]
    undecided = tot('undecided')
    # canaries
    can_report = []
    can_missed = []
    for ci, can in enumerate(canaries):
        rs = [r for r in results if r.get('canary') == 'canary%d' % ci]
        found = [v for r in rs for v in r['violations']] + [k['example'] for r in rs for k in r['known']]
        errs = [e for r in rs for e in r.get('errors', [])]
        can_report.append(dict(mutation=can['name'], detected=bool(found), replay_input=(found[0]['inputs'] if found else None),
                               failed=(found[0]['failed'] if found else None), errors=errs[:2]))
        if not found and errs and all('canary anchor not found' in e for e in errs):
            can_report[-1]['skipped'] = 'anchor text not present in the current source (the mutated line was edited): canary not applicable'
        elif not found:
            can_missed.append(can['name'])
    # replay files
    os.makedirs(os.path.join(VERIF, 'replays'), exist_ok=True)
    lines = []
    for i, v in enumerate(violations[:20]):
        path = os.path.join(VERIF, 'replays', '%s_%s_%d.json' % (pid, tier, i))
        json.dump(dict(property=pid, cfg=v['cfg'], inputs=v['inputs'], failed=v['failed'], observed=v['observed'],
                       repo_hashes=loader.file_hashes(repo),
                       how_to='cd /verif && ./check %s --replay %s' % (pid, path)), open(path, 'w'), indent=1)
        lines.append('VIOLATION property=%s replay=%s' % (pid, path))
    for k in known.values():
        print('KNOWN-FINDING: property=%s %s [%s]' % (pid, k['what'], k['id']))
    # cross-check exported queries with the other solvers
    smt = [s for r in main_r for s in r.get('smt2', [])]
    cross = crosscheck.run(smt, limit=(200 if tier == 'thorough' else 12)) if smt else dict(queries=0)
    covered = sorted(set(f for r in main_r for f in r.get('covered', [])))
    samples = []
    for r in main_r:
        for s in r['samples']:
            if len(samples) < 6:
                samples.append(dict(cfg=r['cfg'], **s))
    if not samples:
        samples = [dict(note='no path completed')]
    paths = tot('paths')
    ev = dict(
        property_id=pid, tier=tier, seed=seed, level='model_checking',
        coverage=dict(
            states=paths, transitions=tot('branch_decisions') + tot('syntactic_branches') + tot('obligations'),
            traces_validated_against_impl=tot('validated'), samples=samples,
            evaluations=tot('obligations'), distinct_nontrivial=sum(1 for r in main_r if r['paths'] > 1 or r['by_solver'] > 0),
            rule='one evaluation per verdict obligation (path condition AND NOT postcondition); a configuration is counted as distinct and '
                 'non-trivial when its exploration forked on a value-dependent decision or needed the solver for a verdict',
            configurations=len(main_r), obligations=tot('obligations'), discharged=tot('syntactic') + tot('by_solver'),
            discharged_syntactically=tot('syntactic'), discharged_by_solver=tot('by_solver'), undecided=undecided,
            paths_not_encoded=len(not_encoded), not_encoded_samples=not_encoded[:5], violating_only_outside_doubles=tot('overapprox_only'),
            solver_queries=tot('solver_queries'), solver_seconds=round(sum(r.get('solver_s', 0) for r in main_r), 2),
            witness_validation_skipped=tot('validation_skipped'),
            transient_divergences=[d for r in main_r for d in r.get('transient_divergences', [])][:5],
            functions_encoded=dict(declared=getattr(prop, 'ENCODED', []), executed_symbolically=covered, file_sha256=loader.file_hashes(repo)),
            bounds=auto_bounds(prop, [r['cfg'] for r in main_r]),
            crosscheck=cross, canary=can_report, known_findings_hit=sorted(known), exhaustive=False,
            explanation='bounded symbolic model checking of the lifted fxpmath source (engine SX, QF_BV verdict queries); see DESIGN.md'),
        assumptions=getattr(prop, 'ASSUMPTIONS', []),
        wall_s=round(wall, 2), violations=len(violations))
    # evidence/<id>.json describes runs against /repo; a run pointed at another checkout (SX_REPO, seeded changes) writes elsewhere
    evdir = os.path.join(VERIF, 'evidence') if os.path.realpath(repo) == '/repo' else os.path.join(VERIF, 'scratch', 'evidence-other-checkout')
    os.makedirs(evdir, exist_ok=True)
    json.dump(ev, open(os.path.join(evdir, pid + '.json'), 'w'), indent=1)
    print('%s %s: %d configurations, %d paths, %d obligations (%d syntactic, %d solver, %d undecided), %d witnesses validated, '
          '%d violations, %d known, %.1fs wall, solver %.1fs' % (pid, tier, len(main_r), paths, tot('obligations'), tot('syntactic'),
                                                             tot('by_solver'), undecided, tot('validated'), len(violations), len(known), wall,
                                                             sum(r.get('solver_s', 0) for r in main_r)))
    if os.environ.get('SX_SLOWEST'):
        for r in sorted(main_r, key=lambda r: -r.get('wall_s', 0))[:8]:
            print('  slow: %.1fs paths=%d %s' % (r.get('wall_s', 0), r['paths'], json.dumps(r['cfg'])))
    for l in lines:
        print(l)
    if violations:
        import collections
        cls = collections.OrderedDict()
        for v in violations:
            key = (tuple(sorted((k, str(x)) for k, x in v['cfg'].items() if k in ('part', 'route', 'route2', 'mutation', 'direction', 'op', 'fn', 'carrier', 'entry', 'field', 'mode', 'sizing'))), tuple(v['failed'][:3]))
            cls.setdefault(key, [0, v])[0] += 1
        print('  %d violation classes (by configuration kind and failed obligations):' % len(cls))
        for key, (cnt, v) in list(cls.items())[:40]:
            print('   x%d %s failed=%s' % (cnt, dict(key[0]), list(key[1])))
        for v in violations[:5]:
            print('  e.g. cfg=%s inputs=%s failed=%s' % (json.dumps(v['cfg']), json.dumps(v['inputs']), v['failed']))
        return 1
    harness_err = False
    if divergences:
        harness_err = True
        print('HARNESS-ERROR: %d encoding divergences, e.g. %s' % (len(divergences), json.dumps(divergences[0])[:1500]))
    if errors:
        harness_err = True
        print('HARNESS-ERROR: %d errors, e.g. cfg=%s\n%s' % (len(errors), errors[0][0], errors[0][1]))
    if not_encoded:
        harness_err = True
        print('HARNESS-ERROR: %d paths not encoded inside the claimed domain, e.g. %s' % (len(not_encoded), json.dumps(not_encoded[0])[:800]))
    if undecided:
        harness_err = True
        print('HARNESS-ERROR: %d undecided solver queries, e.g. %s' % (undecided, [(r['cfg'], r.get('undecided_names')) for r in main_r if r.get('undecided')][:2]))
    if can_missed:
        harness_err = True
        print('HARNESS-ERROR: canary mutation(s) not detected: %s' % can_missed)
        for c in can_report:
            if not c['detected'] and c['errors']:
                print('   canary errors:', c['errors'][0][:1500])
    if cross.get('disagreements') or cross.get('errors'):
        harness_err = True
        print('HARNESS-ERROR: solver cross-check: %s' % json.dumps(cross)[:800])
    return 2 if harness_err else 0


if __name__ == '__main__':
    sys.exit(main(sys.argv[1:]))
