"""Specification vocabulary, generic over concrete values (int / float / Fraction) and SX terms.

Nothing in here is taken from fxpmath: the reference quantiser is written directly on integers
(floor = arithmetic shift, remainder = low bits, tie = remainder == half, parity = bit 0).
"""
import builtins
from fractions import Fraction
from . import term as T
from .term import SInt, SFloat, SBool

_isinstance = builtins.isinstance

ROUNDINGS = ('trunc', 'around', 'floor', 'ceil', 'fix')
OVERFLOWS = ('saturate', 'wrap')

AND, OR, NOT, IMPLIES, IFF = T.b_and, T.b_or, T.b_not, T.b_implies, T.b_iff


def ITE(c, a, b):
    if _isinstance(c, bool):
        return a if c else b
    return T.iite(c, a, b)


def dy(x):
    """exact dyadic view (num, exp) of an int / float / Fraction / term / 1-cell array"""
    if _isinstance(x, tuple) and len(x) == 2:
        return x                                  # already a dyadic (num, exp)
    if hasattr(x, '_sx_scalar_value'):
        x = x._sx_scalar_value()
    if _isinstance(x, SFloat):
        return x.num, x.exp
    if _isinstance(x, (SInt, SBool)):
        return (T.bool_to_int(x) if _isinstance(x, SBool) else x), 0
    if _isinstance(x, bool):
        return int(x), 0
    if _isinstance(x, int):
        return x, 0
    if _isinstance(x, float):
        n, d = x.as_integer_ratio()
        return n, -(d.bit_length() - 1)
    if _isinstance(x, Fraction):
        d = x.denominator
        assert d & (d - 1) == 0, 'not dyadic'
        return x.numerator, -(d.bit_length() - 1)
    if hasattr(x, 'item') and hasattr(x, 'dtype'):
        return dy(x.item())
    raise TypeError('dy(%r)' % (type(x),))


def scaled(x, k):
    """x * 2**k as an exact dyadic (num, exp)"""
    n, e = dy(x)
    return n, e + k


def to_grid(d, exp):
    """numerator of dyadic d on the grid 2**exp (requires exp <= d's exponent or exact divisibility)"""
    n, e = d
    if e >= exp:
        return T.ishl(n, e - exp) if e > exp else n
    # coarser target grid: must divide exactly
    g = exp - e
    return T.ishr(n, g)


def dy_eq(a, b):
    (n1, e1), (n2, e2) = a, b
    e = min(e1, e2)
    return T.icmp(to_grid(a, e), to_grid(b, e), '==')


def dy_cmp(a, b, op):
    (n1, e1), (n2, e2) = a, b
    e = min(e1, e2)
    return T.icmp(to_grid(a, e), to_grid(b, e), op)


def ROUND(d, mode):
    """integer nearest-by-mode to the dyadic d = (num, exp)"""
    n, e = d
    if e >= 0:
        return T.ishl(n, e) if e else n
    g = -e
    fl = T.ishr(n, g)                       # floor
    rem = T.imod_pow2(n, g)                 # 0 <= rem < 2^g
    nz = T.icmp(rem, 0, '!=')
    if mode == 'floor':
        return fl
    if mode == 'ceil':
        return T.iadd(fl, ITE(nz, 1, 0))
    if mode in ('trunc', 'fix'):
        neg = T.icmp(n, 0, '<')
        return T.iadd(fl, ITE(AND(neg, nz), 1, 0))
    if mode == 'around':
        half = 1 << (g - 1)
        up = OR(T.icmp(rem, half, '>'), AND(T.icmp(rem, half, '=='), T.icmp(T.imod_pow2(fl, 1), 1, '==')))
        return T.iadd(fl, ITE(up, 1, 0))
    raise ValueError(mode)


def limits(signed, n_word):
    if signed:
        return -(1 << (n_word - 1)), (1 << (n_word - 1)) - 1
    return 0, (1 << n_word) - 1


def OVERFLOW(r, signed, n_word, mode):
    lo, hi = limits(signed, n_word)
    if mode == 'saturate':
        return ITE(T.icmp(r, hi, '>'), hi, ITE(T.icmp(r, lo, '<'), lo, r))
    if mode == 'wrap':
        m = T.imod_pow2(r, n_word)
        if not signed:
            return m
        return ITE(T.icmp(m, 1 << (n_word - 1), '<'), m, T.isub(m, 1 << n_word))
    raise ValueError(mode)


def Q(x, signed, n_word, n_frac, rounding, overflow):
    """reference quantiser: code stored for the real value x in format (signed, n_word, n_frac)"""
    return OVERFLOW(ROUND(scaled(x, n_frac), rounding), signed, n_word, overflow)


def flags(x, signed, n_word, n_frac, rounding, overflow):
    """(overflow, underflow, inaccuracy) conditions for storing x"""
    lo, hi = limits(signed, n_word)
    r = ROUND(scaled(x, n_frac), rounding)
    code = OVERFLOW(r, signed, n_word, overflow)
    return T.icmp(r, hi, '>'), T.icmp(r, lo, '<'), NOT(dy_eq((code, -n_frac), dy(x)))


def is_double(n, p=53):
    """predicate: integer n has at most p significant bits (so n*2^e is a double / float32 / float16 for suitable e)"""
    if not _isinstance(n, SInt):
        n = abs(int(n))
        while n and n % 2 == 0:
            n //= 2
        return n < (1 << p)
    a = T.iabs(n)
    top = max(abs(n.lo), abs(n.hi)).bit_length()
    if top <= p:
        return True
    alts = [T.icmp(a, 1 << p, '<')]
    for s in range(1, top - p + 1):
        alts.append(AND(T.icmp(a, 1 << (p + s), '<'), T.icmp(T.imod_pow2(a, s), 0, '==')))
    return OR(*alts)


def frac_of(x):
    """concrete value -> Fraction"""
    if _isinstance(x, Fraction):
        return x
    if _isinstance(x, (int, float)):
        return Fraction(x)
    if hasattr(x, 'item'):
        return Fraction(x.item())
    raise TypeError(type(x))
