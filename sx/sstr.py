"""Fixed-length symbolic strings: per-position characters that are concrete or an 8-bit code with a static alphabet."""
import builtins
import z3
from . import term as T
from .term import SInt, SBool, OutOfModel

_isinstance = builtins.isinstance
_len, _all, _any, _max, _min = builtins.len, builtins.all, builtins.any, builtins.max, builtins.min
_str = builtins.str


class SChar:
    """origin = (digit value term, base) when the character was produced by digit_char(): parsing it back with the
    same base returns the digit term itself (char_digit(digit_char(d)) == d), which keeps round-trip terms small"""
    __slots__ = ('bv', 'alpha', 'origin')

    def __init__(self, bv, alpha, origin=None):
        self.bv, self.alpha, self.origin = bv, frozenset(alpha), origin

    def __repr__(self):
        return 'SChar{%s}' % ''.join(sorted(self.alpha))


def char_var(name, alphabet):
    alphabet = sorted(set(alphabet))
    if _len(alphabet) == 1:
        return alphabet[0], z3.BoolVal(True)
    v = z3.BitVec(name, 8)
    return SChar(v, alphabet), z3.Or(*[v == ord(a) for a in alphabet])


def norm(chars):
    chars = [c if _isinstance(c, _str) or _len(c.alpha) != 1 else next(iter(c.alpha)) for c in chars]
    if _all(_isinstance(c, _str) for c in chars):
        return ''.join(chars)
    return SStr(chars)


def ceq(a, b):
    """char equality -> bool | z3 bool"""
    if _isinstance(a, _str) and _isinstance(b, _str):
        return a == b
    if _isinstance(a, _str):
        a, b = b, a
    if _isinstance(b, _str):
        if b not in a.alpha:
            return False
        if _len(a.alpha) == 1:
            return True
        return a.bv == z3.BitVecVal(ord(b), 8)
    if not (a.alpha & b.alpha):
        return False
    return a.bv == b.bv


def chars_of(s):
    if _isinstance(s, SStr):
        return s.chars
    if _isinstance(s, _str):
        return list(s)
    raise TypeError('expected str, got %r' % (type(s),))


class SStr:
    __array_ufunc__ = None

    def __init__(self, chars):
        self.chars = list(chars)

    def _sx_symbolic(self):
        return True

    def _sx_eval(self, model):
        out = []
        for c in self.chars:
            if _isinstance(c, _str):
                out.append(c)
            else:
                out.append(chr(model.eval(c.bv, model_completion=True).as_long()))
        return ''.join(out)

    def __repr__(self):
        return 'SStr(%s)' % ''.join(c if _isinstance(c, _str) else '?' for c in self.chars)

    def __deepcopy__(self, memo):
        return self

    def __len__(self):
        return _len(self.chars)

    def __getitem__(self, i):
        if _isinstance(i, slice):
            return norm(self.chars[i])
        return norm([self.chars[i]])

    def __iter__(self):
        return iter([norm([c]) for c in self.chars])

    def __add__(self, o):
        if not _isinstance(o, (_str, SStr)):
            return NotImplemented
        return norm(self.chars + chars_of(o))

    def __radd__(self, o):
        if not _isinstance(o, (_str, SStr)):
            return NotImplemented
        return norm(chars_of(o) + self.chars)

    def __mul__(self, n):
        return norm(self.chars * n)
    __rmul__ = __mul__

    def _eq(self, o):
        if not _isinstance(o, (_str, SStr)):
            return False
        oc = chars_of(o)
        if _len(oc) != _len(self.chars):
            return False
        es = [ceq(a, b) for a, b in zip(self.chars, oc)]
        if _any(e is False for e in es):
            return False
        es = [e for e in es if e is not True]
        if not es:
            return True
        return T.mk_bool(z3.And(*es))

    def __eq__(self, o):
        return self._eq(o)

    def __ne__(self, o):
        return T.b_not(self._eq(o))
    __hash__ = None

    def _match_at(self, i, pat):
        es = [ceq(self.chars[i + j], p) for j, p in enumerate(pat)]
        if _any(e is False for e in es):
            return False
        es = [e for e in es if e is not True]
        return True if not es else T.mk_bool(z3.And(*es))

    def __contains__(self, pat):
        pat = chars_of(pat)
        rs = [self._match_at(i, pat) for i in range(_len(self.chars) - _len(pat) + 1)]
        return bool(T.b_or(*rs)) if rs else False

    def find(self, pat, start=0):
        pat = chars_of(pat)
        for i in range(start, _len(self.chars) - _len(pat) + 1):
            if self._match_at(i, pat):       # forks when undecided
                return i
        return -1

    def index(self, pat):
        r = self.find(pat)
        if r < 0:
            raise ValueError('substring not found')
        return r

    def count(self, pat):
        pat = chars_of(pat)
        n = i = 0
        while i + _len(pat) <= _len(self.chars):
            if self._match_at(i, pat):
                n += 1
                i += _len(pat)
            else:
                i += 1
        return n

    def endswith(self, pat):
        pat = chars_of(pat)
        if _len(pat) > _len(self.chars):
            return False
        return bool(self._match_at(_len(self.chars) - _len(pat), pat))

    def startswith(self, pat):
        pat = chars_of(pat)
        if _len(pat) > _len(self.chars):
            return False
        return bool(self._match_at(0, pat))

    def replace(self, old, new, count=-1):
        old = chars_of(old)
        new = chars_of(new)
        out, i, n = [], 0, _len(self.chars)
        if not old:
            raise OutOfModel('replace of empty pattern')
        while i < n:
            if i + _len(old) <= n and self._match_at(i, old):   # bool() forks when undecided
                out += new
                i += _len(old)
            else:
                out.append(self.chars[i])
                i += 1
        return norm(out)

    def _map(self, f):
        out = []
        for c in self.chars:
            if _isinstance(c, _str):
                out.append(f(c))
            else:
                m = {a: f(a) for a in c.alpha}
                if _all(k == v for k, v in m.items()):
                    out.append(c)
                elif _all(_len(v) == 1 for v in m.values()):
                    # re-encode: new code = ite chain
                    bv = None
                    for a, b in sorted(m.items()):
                        bv = z3.BitVecVal(ord(b), 8) if bv is None else z3.If(c.bv == ord(a), z3.BitVecVal(ord(b), 8), bv)
                    keep = c.origin if (c.origin is not None and _all(a in _DIG_U or a in _DIG_L for a in c.alpha)
                                        and _all(int(k, 36) == int(v, 36) for k, v in m.items())) else None
                    out.append(SChar(z3.simplify(bv), set(m.values()), keep))
                else:
                    raise OutOfModel('case mapping changes length')
        return norm(out)

    def lower(self):
        return self._map(_str.lower)

    def casefold(self):
        return self._map(_str.casefold)

    def upper(self):
        return self._map(_str.upper)

    def strip(self, chars=None):
        if chars is None:
            chars = ' \t\n'
        cs = list(self.chars)
        while cs and bool(char_in_set(cs[0], chars)):
            cs.pop(0)
        while cs and bool(char_in_set(cs[-1], chars)):
            cs.pop()
        return norm(cs)

    def split(self, sep=None, maxsplit=-1):
        if sep is None:
            raise OutOfModel('split() on whitespace of symbolic string')
        sep = chars_of(sep)
        parts, cur, i, n = [], [], 0, _len(self.chars)
        while i < n:
            if (maxsplit < 0 or _len(parts) < maxsplit) and i + _len(sep) <= n and self._match_at(i, sep):
                parts.append(norm(cur))
                cur = []
                i += _len(sep)
            else:
                cur.append(self.chars[i])
                i += 1
        parts.append(norm(cur))
        return parts

    def isdigit(self):
        return bool(T.b_and(*[char_in_set(c, '0123456789') for c in self.chars])) if self.chars else False

    def format(self, *a, **k):
        raise OutOfModel('format on symbolic string')

    def encode(self, *a):
        raise OutOfModel('encode symbolic string')

    def __lt__(self, o):
        raise OutOfModel('string ordering')

    def __format__(self, spec):
        raise OutOfModel('symbolic string reached str.format')


def char_in_set(ch, s):
    if _isinstance(ch, _str):
        return ch in s
    yes = [a for a in ch.alpha if a in s]
    if _len(yes) == _len(ch.alpha):
        return True
    if not yes:
        return False
    return T.mk_bool(z3.Or(*[ch.bv == ord(a) for a in yes]))


_DIG_U = '0123456789ABCDEFGHIJKLMNOPQRSTUVWXYZ'
_DIG_L = '0123456789abcdefghijklmnopqrstuvwxyz'


def digit_char(val, base=16, upper=True):
    """digit value (int | SInt in [0, base)) -> character"""
    tab = _DIG_U if upper else _DIG_L
    if not _isinstance(val, SInt):
        return tab[int(val)]
    v = T.lift(val).ext(9)
    v8 = z3.Extract(7, 0, v)
    if base > 10:
        bv = z3.If(z3.ULT(v8, 10), v8 + 48, v8 + (55 if upper else 87))
    else:
        bv = v8 + 48
    return SChar(z3.simplify(bv), tab[val.lo:val.hi + 1], (val, base))


def char_digit(c, base):
    """character -> digit value (int | SInt); forks/raises ValueError on non-digits like int() does"""
    if _isinstance(c, _str):
        return int(c, base)
    if c.origin is not None and c.origin[1] <= base:
        return c.origin[0]
    ok = [a for a in c.alpha if a in _DIG_U[:base] or a in _DIG_L[:base]]
    if _len(ok) != _len(c.alpha):
        good = T.mk_bool(z3.Or(*[c.bv == ord(a) for a in ok])) if ok else False
        if not bool(good):
            raise ValueError('invalid literal for int() with base %d' % base)
    vals = sorted(int(a, base) for a in ok)
    z = z3.ZeroExt(2, c.bv)
    d = z3.If(z3.ULE(z, 57), z - 48, z3.If(z3.ULE(z, 90), z - 55, z - 87))
    return T.mk(z3.simplify(d), vals[0], vals[-1])


def to_base_fixed(val, base_bits, ndigits, upper=True):
    """non-negative int|SInt -> exactly ndigits characters in base 2**base_bits (value must fit)"""
    out = []
    for i in reversed(range(ndigits)):
        d = T.imod_pow2(T.ishr(val, i * base_bits), base_bits)
        out.append(digit_char(d, 1 << base_bits, upper))
    return norm(out)


def to_base_var(val, base_bits, upper=True, min_digits=1):
    """non-negative symbolic int -> minimal-length numeral in base 2**base_bits; forks on the digit count"""
    if not _isinstance(val, SInt):
        raise TypeError
    assert val.lo >= 0
    def nd(v):
        return _max(min_digits, (v.bit_length() + base_bits - 1) // base_bits)
    lo, hi = nd(val.lo), nd(val.hi)
    for n in range(lo, hi):
        if val < (1 << (n * base_bits)):           # fork
            return to_base_fixed(val, base_bits, n, upper)
    return to_base_fixed(val, base_bits, hi, upper)


def to_decimal(val):
    """symbolic int -> decimal numeral; forks on sign and digit count; digits are fresh variables tied by a linear constraint"""
    if not _isinstance(val, SInt):
        return _str(int(val))
    if val.lo < 0:
        if val < 0:
            return norm(['-'] + chars_of(to_decimal(T.ineg(val))))
        val = T.refine_or(val, 0, val.hi)
    def nd(v):
        return _len(_str(v))
    lo, hi = nd(_max(val.lo, 0)), nd(val.hi)
    n = hi
    for k in range(lo, hi):
        if val < 10 ** k:
            n = k
            break
    # digits d_{n-1}..d_0 with sum d_i 10^i == val
    ex = T.EX
    digs, acc = [], 0
    for i in reversed(range(n)):
        dlo = 1 if (i == n - 1 and n > 1) else 0
        d, dom = T.int_var(T.fresh_name('dec'), dlo, 9)
        ex.assume(T.mk_bool(dom))
        digs.append(d)
        acc = T.iadd(T.imul(acc, 10), d)
    ex.assume(T.icmp(acc, val, '=='))
    return norm([digit_char(d, 10) for d in digs])


def parse_int(s, base=10):
    cs = list(chars_of(s))
    # python's int() strips whitespace and accepts a sign and underscores; we model sign + digits
    while cs and _isinstance(cs[0], _str) and cs[0] in ' \t\n':
        cs.pop(0)
    while cs and _isinstance(cs[-1], _str) and cs[-1] in ' \t\n':
        cs.pop()
    if not cs:
        raise ValueError("invalid literal for int() with base %d: ''" % base)
    sign = 1
    c0 = cs[0]
    if _isinstance(c0, _str):
        if c0 in '+-':
            sign = -1 if c0 == '-' else 1
            cs = cs[1:]
    elif c0.alpha & set('+-'):
        if bool(char_in_set(c0, '-')):
            sign, cs = -1, cs[1:]
        elif bool(char_in_set(c0, '+')):
            cs = cs[1:]
    if _len(cs) >= 2 and _isinstance(cs[0], _str) and cs[0] == '0' and _isinstance(cs[1], _str) and \
            cs[1] in {2: 'bB', 16: 'xX', 8: 'oO'}.get(base, ''):
        cs = cs[2:]
    if not cs:
        raise ValueError('invalid literal for int()')
    acc = 0
    for c in cs:
        acc = T.iadd(T.imul(acc, base), char_digit(c, base))
    return T.ineg(acc) if sign < 0 else acc


def parse_float(s):
    """float(<string>) for decimal numerals  [sign] digits [. digits] [e [sign] digits]  whose integer digits may be symbolic while the
    fraction and the exponent are concrete.  float() is correctly rounded, so whenever the exact decimal value is a dyadic rational the
    result is that value rounded to 53 bits (T._fexact); anything else is outside the model."""
    from fractions import Fraction
    from .term import OutOfModel
    cs = list(chars_of(s))
    while cs and _isinstance(cs[0], _str) and cs[0] in ' \t\n':
        cs.pop(0)
    while cs and _isinstance(cs[-1], _str) and cs[-1] in ' \t\n':
        cs.pop()
    bad = ValueError('could not convert string to float')
    if not cs:
        raise bad
    sign = 1
    c0 = cs[0]
    if _isinstance(c0, _str):
        if c0 in '+-':
            sign, cs = (-1 if c0 == '-' else 1), cs[1:]
    elif c0.alpha & set('+-'):
        if bool(char_in_set(c0, '-')):
            sign, cs = -1, cs[1:]
        elif bool(char_in_set(c0, '+')):
            cs = cs[1:]
    mant, expo = cs, []
    for i, c in enumerate(cs):
        if _isinstance(c, _str) and c in 'eE':
            mant, expo = cs[:i], cs[i + 1:]
            if not expo:
                raise bad
            break
    ip, fp = mant, []
    for i, c in enumerate(mant):
        if _isinstance(c, _str) and c == '.':
            ip, fp = mant[:i], mant[i + 1:]
            break
    if not ip and not fp:
        raise bad
    digits = set('0123456789')
    for c in ip + fp + expo:
        if _isinstance(c, _str):
            if c not in digits and not (c in '+-' and expo and c is expo[0]):
                if c == '_' or c.lower() in 'infa':
                    raise OutOfModel('float() of %r' % (c,))
                raise bad
        elif not (c.alpha <= digits):
            raise OutOfModel('float() of a symbolic string with non-digit alternatives')
    if not _all(_isinstance(c, _str) for c in fp + expo):
        raise OutOfModel('float() of a string with symbolic fraction or exponent digits')
    e10 = int(''.join(expo)) if expo else 0
    frac = Fraction(int(''.join(fp)), 10 ** _len(fp)) if fp else Fraction(0)
    acc = 0
    for c in ip:
        acc = T.iadd(T.imul(acc, 10), char_digit(c, 10))
    if not _isinstance(acc, T.SInt):
        r = float(('-' if sign < 0 else '') + ''.join(ip) + '.' + ''.join(fp) + 'e%d' % e10) if (ip or fp) else 0.0
        return r
    if e10 < 0:
        raise OutOfModel('float() of a symbolic decimal with a negative exponent')
    scale = 10 ** e10
    fr = frac * scale
    den = fr.denominator
    if den & (den - 1):
        raise OutOfModel('float() of a symbolic decimal whose fraction is not dyadic')
    k = den.bit_length() - 1
    num = T.iadd(T.imul(acc, scale << k), fr.numerator)
    if sign < 0:
        num = T.ineg(num)
    return T._fexact(num, -k, 'float(str)')


class SSet:
    """set(<symbolic string>) - only what utils.add_binary_prefix needs"""
    def __init__(self, chars):
        self.chars = chars

    def __sub__(self, conc):
        keep = []
        for ch in self.chars:
            if _isinstance(ch, _str):
                if ch not in conc:
                    keep.append(ch)
            elif not (ch.alpha <= set(conc)):
                # may or may not be in conc: decide (fork)
                if not bool(char_in_set(ch, ''.join(c for c in conc if _isinstance(c, _str)))):
                    keep.append(ch)
        return SSet(keep)

    def __len__(self):
        if _all(_isinstance(c, _str) for c in self.chars):
            return _len(set(self.chars))
        return _len(self.chars) and 1 or 0      # only emptiness is used

    def __repr__(self):
        return 'SSet(%r)' % (self.chars,)

    def __format__(self, spec):
        return repr(self)
