"""C12 -- dtype strings and formats determine each other in every notation.  The sizes themselves are symbolic here."""
import random
from sx import spec as SP, obs as O, term as T, sstr as S
from . import common as C

ID = 'C12'
HANDLES_EXC = True
ENCODED = ['Fxp._update_dtype', 'Fxp.get_dtype', 'Fxp.dtype', 'Fxp._parseformatstr', 'Fxp._qfmt', 'Fxp._fxpfmt', 'utils.get_sizes_from_dtype',
           'Fxp.__init__', 'Fxp.resize']
ASSUMPTIONS = [
    'n_word in 1..256 and n_frac in -8..n_word+8 are solver integers; signedness, complex flag, notation and configured default are enumerated',
    'the rendering/parsing units are driven on a real object whose size fields are set to the symbolic values (resize() with symbolic sizes would '
    'need 1 << n_word); the end-to-end routes Fxp(dtype=...) and resize(dtype=...) run on a concrete grid of formats',
    'decimal numerals of symbolic integers: digit variables tied to the value by a linear constraint, forking on sign and digit count',
    'the regular expressions are matched by a backtracking matcher driven by CPython\'s own parse of the pattern text found in the lifted source',
]
LETTERS = {'Q': True, 'S': True, 'UQ': False, 'QU': False, 'U': False}


def configs(tier, seed):
    rng = random.Random(seed)
    out = []
    for signed in (True, False):
        for cplx in (False, True):
            for default in ('fxp', 'Q'):
                out.append(dict(part='render_parse', signed=signed, complex=cplx, default=default))
    for letters in LETTERS:
        for case in ('upper', 'lower', 'mixed'):
            out.append(dict(part='q_literal', letters=letters, case=case))
    for signed in (True, False):
        for case in ('lower', 'mixed'):
            out.append(dict(part='fxp_literal', signed=signed, case=case, complex=rng.choice((True, False))))
    grid = [(s, n, f) for s in (True, False) for n in (1, 2, 7, 8, 9, 10, 16, 52, 64, 99, 100, 128, 256) for f in (-8, -1, 0, 1, n // 2, n, n + 8)]
    for (s, n, f) in (C.pick(grid, 40, rng) if tier == 'quick' else grid):
        out.append(dict(part='end_to_end', signed=s, n_word=n, n_frac=f, complex=(n <= 52 and rng.random() < 0.3), default=rng.choice(('fxp', 'Q'))))
    return out


def cost(cfg):
    return {'render_parse': 50, 'q_literal': 10, 'fxp_literal': 10}.get(cfg['part'], 1)


def inputs(cfg):
    if cfg['part'] == 'end_to_end':
        return {}
    if cfg['part'] == 'q_literal':
        sp = {'m': dict(kind='int', lo=0, hi=264), 'n': dict(kind='int', lo=-8, hi=264)}
    else:
        sp = {'nw': dict(kind='int', lo=1, hi=256), 'nf': dict(kind='int', lo=-8, hi=264)}
    if cfg.get('case') == 'mixed':
        for i in range(8):
            sp['up%d' % i] = dict(kind='bool')
    return sp


def assume(cfg, inp):
    if cfg['part'] in ('render_parse', 'fxp_literal'):
        return T.icmp(inp['nf'], T.iadd(inp['nw'], 8), '<=')
    if cfg['part'] == 'q_literal':
        t = T.iadd(inp['m'], inp['n'])
        return SP.AND(T.icmp(t, 1, '>='), T.icmp(t, 256, '<='), T.icmp(inp['n'], T.iadd(t, 8), '<='))
    return True


def _fmtstr(F, lit, *args):
    if F.symbolic:
        from sx import loader
        return loader.sx_format(lit, *args)
    return lit.format(*args)


def _case(F, s, cfg, inp):
    """apply the configured letter case to the letters of s (symbolic per-letter choice for 'mixed')"""
    if cfg['case'] == 'upper':
        return s.upper() if isinstance(s, str) else s.upper()
    if cfg['case'] == 'lower':
        return s.lower()
    chars = S.chars_of(s)
    out, k = [], 0
    for ch in chars:
        if isinstance(ch, str) and ch.isalpha() and k < 8:
            up = inp['up%d' % k]
            k += 1
            if isinstance(up, bool):
                out.append(ch.upper() if up else ch.lower())
            else:
                import z3
                out.append(S.SChar(z3.If(up.e, z3.BitVecVal(ord(ch.upper()), 8), z3.BitVecVal(ord(ch.lower()), 8)), {ch.upper(), ch.lower()}))
        else:
            out.append(ch)
    return S.norm(out)


def _parse(x, s):
    try:
        r = x._parseformatstr(s)
        return [r[0], r[1], r[2], r[3]]
    except ValueError:
        return 'ValueError'


def run(F, cfg, inp):
    p = cfg['part']
    if p == 'end_to_end':
        s, n, f = cfg['signed'], cfg['n_word'], cfg['n_frac']
        kw = {'dtype_notation': cfg['default']}
        x = F.Fxp(None, s, n, f, **kw)
        if cfg['complex']:
            x = F.Fxp(0j, s, n, f, **kw)
        ob = dict(dtype=x.dtype)
        y = F.Fxp(None, dtype=x.get_dtype('fxp'))
        tmpl = F.Fxp(None, not s, 12, 3)
        yl = F.Fxp(None, like=tmpl, dtype=x.get_dtype('fxp'))          # the dtype string overrides the sizes (and the complex flag) of a like= template
        ob['ctor_like'] = C.fmt_of(yl) + [yl.vdtype == complex]
        g1, g2, g3 = x.get_dtype('Q') if n - f >= 0 else None, x.get_dtype('fxp'), x.get_dtype()
        ob['get_dtype_sequence'] = [g2, g3]                              # asked in both notations one after the other
        z = F.Fxp(1.5, True, 16, 2)           # an ordinary object holding a value, re-formatted by its dtype string
        z.resize(dtype=x.get_dtype('fxp'))
        ob['ctor'] = C.fmt_of(y) + [y.vdtype == complex]
        ob['resize'] = C.fmt_of(z) + [z.vdtype == complex]
        z2 = F.Fxp(0, s, n, f)                # a real object that already has the sizes: only the complex suffix (if any) is new
        z2.resize(dtype=x.get_dtype('fxp'))
        z2.get_dtype()
        ob['resize_same_sizes'] = C.fmt_of(z2) + [z2.vdtype == complex, z2.dtype]
        if n - f >= 0:
            q = x.get_dtype('Q')
            w = F.Fxp(None, dtype=q)
            ob['ctor_q'] = C.fmt_of(w)
            ob['q'] = q
        return ob
    x = F.Fxp(None, True, 16, 8, dtype_notation=cfg.get('default', 'fxp'))
    if p == 'render_parse':
        x.signed, x.n_word, x.n_frac = cfg['signed'], inp['nw'], inp['nf']
        if cfg['complex']:
            x.vdtype = complex
        x._update_dtype()
        d_default = x.dtype
        d_fxp = x.get_dtype('fxp')
        d_q = x.get_dtype('Q')
        x.get_dtype()
        ob = dict(default=d_default, fxp=d_fxp, q=d_q)
        ob['parse_fxp'] = _parse(x, d_fxp)
        ob['parse_q'] = _parse(x, d_q)
        try:
            r = F.utils.get_sizes_from_dtype(d_fxp)
            ob['sizes_from_dtype'] = [r[0], r[1], r[2]]
        except ValueError:
            ob['sizes_from_dtype'] = 'ValueError'
        return ob
    if p == 'q_literal':
        s = _fmtstr(F, cfg['letters'] + '{}.{}', inp['m'], inp['n'])
        return dict(parsed=_parse(x, _case(F, s, cfg, inp)))
    s = _fmtstr(F, 'fxp-' + ('s' if cfg['signed'] else 'u') + '{}/{}' + ('-complex' if cfg['complex'] else ''), inp['nw'], inp['nf'])
    return dict(parsed=_parse(x, _case(F, s, cfg, inp)))


def _starts(s, prefix):
    cs = S.chars_of(s)
    return len(cs) >= len(prefix) and all(isinstance(c, str) and c == p for c, p in zip(cs, prefix))


def _tuple_eq(got, signed, nw, nf, cplx=None):
    if got == 'ValueError' or not isinstance(got, list):
        return False
    c = [got[0] is signed or got[0] == signed, T.icmp(got[1], nw, '=='), T.icmp(got[2], nf, '==')]
    if cplx is not None:
        c.append(got[3] == cplx)
    return SP.AND(*c)


def post(cfg, inp, ob):
    if '__exc__' in ob:
        return [('no_exception:' + ob['__exc__'], False)]
    p = cfg['part']
    if p == 'end_to_end':
        s, n, f, cx = cfg['signed'], cfg['n_word'], cfg['n_frac'], cfg['complex']
        out = [('ctor_roundtrip', ob['ctor'] == [s, n, f, cx]), ('resize_roundtrip', ob['resize'] == [s, n, f, cx]),
               ('ctor_with_like_template_roundtrip', ob['ctor_like'] == [s, n, f, cx])]
        fx_ = 'fxp-%s%d/%d%s' % ('s' if s else 'u', n, f, '-complex' if cx else '')
        out.append(('resize_of_an_object_with_the_same_sizes_roundtrip', ob['resize_same_sizes'] == [s, n, f, cx, fx_]))
        fx_ = 'fxp-%s%d/%d%s' % ('s' if s else 'u', n, f, '-complex' if cx else '')
        q_ = ('Q' if s else 'UQ') + '%d.%d' % (n - f, f)
        out.append(('get_dtype_after_other_notation', ob['get_dtype_sequence'] == [fx_, fx_ if cfg['default'] == 'fxp' else q_]))
        if 'ctor_q' in ob:
            out.append(('q_roundtrip', ob['ctor_q'] == [s, n, f]))
            out.append(('q_spelling', ob['q'] == ('Q' if s else 'UQ') + '%d.%d' % (n - f, f)))
        want = ('fxp-%s%d/%d%s' % ('s' if s else 'u', n, f, '-complex' if cx else '')) if cfg['default'] == 'fxp' else \
            (('Q' if s else 'UQ') + '%d.%d' % (n - f, f))
        out.append(('default_notation_spelling', ob['dtype'] == want))
        return out
    if p == 'render_parse':
        s, cx = cfg['signed'], cfg['complex']
        nw, nf = inp['nw'], inp['nf']
        out = [('fxp_string_parses_back', _tuple_eq(ob['parse_fxp'], s, nw, nf, cx)),
               ('get_sizes_from_dtype', ob['sizes_from_dtype'] != 'ValueError' and
                SP.AND(ob['sizes_from_dtype'][0] == s, T.icmp(ob['sizes_from_dtype'][1], nw, '=='), T.icmp(ob['sizes_from_dtype'][2], nf, '=='))),
               ('get_dtype_fxp_renders_fxp', _starts(ob['fxp'], 'fxp-' + ('s' if s else 'u'))),
               ('get_dtype_Q_renders_Q', _starts(ob['q'], 'Q' if s else 'UQ')),
               ('default_notation', _starts(ob['default'], 'fxp-' if cfg['default'] == 'fxp' else ('Q' if s else 'UQ')))]
        m_nonneg = T.icmp(T.isub(nw, nf), 0, '>=')
        out.append(('q_string_parses_back_when_m_nonneg', SP.IMPLIES(m_nonneg, _tuple_eq(ob['parse_q'], s, nw, nf))))
        return out
    if p == 'q_literal':
        m, n = inp['m'], inp['n']
        return [('q_literal_sizes', _tuple_eq(ob['parsed'], LETTERS[cfg['letters']], T.iadd(m, n), n))]
    return [('fxp_literal_sizes', _tuple_eq(ob['parsed'], cfg['signed'], inp['nw'], inp['nf'], cfg['complex']))]


CANARIES = [
    dict(name='Q notation parsing adds the sign bit to the word length',
         mutate={'objects.py': [('            n_word = n_frac + n_int\n            complex_dtype = False', '            n_word = n_frac + n_int + (1 if signed else 0)\n            complex_dtype = False')]},
         cfgs=[dict(part='q_literal', letters='Q', case='upper')]),
    dict(name='fxp dtype rendering swaps word and fraction length',
         mutate={'objects.py': [("                                                                    nword=self.n_word, \n                                                                    nfrac=self.n_frac, \n                                                                    comp=",
                                 "                                                                    nword=self.n_frac, \n                                                                    nfrac=self.n_word, \n                                                                    comp=")]},
         cfgs=[dict(part='render_parse', signed=True, complex=False, default='fxp')]),
]
