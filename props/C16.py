"""C16 -- comparisons and numeric conversions agree with the exact stored value."""
import random
from sx import spec as SP, obs as O, term as T
from . import common as C

ID = 'C16'
AGEABLE = True        # a quarter of the configurations build their operands as objects with a past (props/common.py)
ENCODED = ['Fxp.__lt__', 'Fxp.__le__', 'Fxp.__eq__', 'Fxp.__ne__', 'Fxp.__gt__', 'Fxp.__ge__', 'Fxp.get_val', 'Fxp.astype', 'Fxp.raw',
           'Fxp.uraw', 'Fxp.__int__', 'Fxp.__float__', 'Fxp.__bool__', 'Fxp.__call__']
ASSUMPTIONS = [
    'operands hold arbitrary in-range codes; n_word <= 24 for comparisons so that every value is an exact double',
    'plain-number operands are dyadic rationals m*2^-g (Python float) or Python ints',
]
OPS = ('lt', 'le', 'eq', 'ne', 'gt', 'ge')
_SYM = {'lt': '<', 'le': '<=', 'eq': '==', 'ne': '!=', 'gt': '>', 'ge': '>='}
_PY = {'lt': lambda a, b: a < b, 'le': lambda a, b: a <= b, 'eq': lambda a, b: a == b, 'ne': lambda a, b: a != b,
       'gt': lambda a, b: a > b, 'ge': lambda a, b: a >= b}


def _fm(maxw):
    return [(s, n, f) for s in (True, False) for n in (1, 2, 3, 4, 5, 8, 12, 16, 24) if n <= maxw for f in sorted(set([-1, 0, 1, n // 2, n, n + 1]))]


def configs(tier, seed):
    rng = random.Random(seed)
    fm = _fm(24)
    if tier == 'thorough':
        fm = [(s, n, f) for s in (True, False) for n in range(1, 25) for f in sorted(set([-1, 0, 1, n // 2, n - 1, n, n + 1]))]
    pairs = [(x, y) for x in fm for y in fm]
    out = []
    for x, y in C.pick(pairs, 300 if tier == 'quick' else 40000, rng):
        out.append(dict(part='cmp', x=list(x), y=list(y), shape=[]))
    for x, y in C.pick(pairs, 40 if tier == 'quick' else 3000, rng):
        out.append(dict(part='cmp', x=list(x), y=list(y), shape=[2]))
    for x in C.pick(fm, 40 if tier == 'quick' else len(fm), rng):
        out.append(dict(part='cmp_num', x=list(x), kind='float', g=rng.choice((0, 1, 3, 30))))
        out.append(dict(part='cmp_num', x=list(x), kind='int'))
    conv = [(s, n, f) for s in (True, False) for n in range(1, 9) for f in range(-1, n + 2)]
    extra = C.formats_q() if tier == 'thorough' else C.pick(C.formats_q(), 30, rng)
    for x in (conv if tier == 'thorough' else C.pick(conv, 60, rng)) + extra:
        out.append(dict(part='conv', x=list(x), shape=[]))
    for x in C.pick(conv, 10 if tier == 'quick' else 60, rng):
        out.append(dict(part='conv', x=list(x), shape=[2]))
    for x in C.pick([q for q in conv if q[2] >= 1], 24 if tier == 'quick' else 600, rng):
        out.append(dict(part='conv', x=list(x), shape=rng.choice(([], [], [2])), history=rng.choice(('raw', 'equal'))))
    return out


def inputs(cfg):
    lo, hi = SP.limits(cfg['x'][0], cfg['x'][1])
    n = 2 if cfg.get('shape') else 1
    sp = {}
    for i in range(n):
        sp['a%d' % i] = dict(kind='int', lo=lo, hi=hi)
    if cfg['part'] == 'cmp':
        lo2, hi2 = SP.limits(cfg['y'][0], cfg['y'][1])
        for i in range(n):
            sp['b%d' % i] = dict(kind='int', lo=lo2, hi=hi2)
    elif cfg['part'] == 'cmp_num':
        if cfg['kind'] == 'int':
            sp['m'] = dict(kind='int', lo=-(1 << 40), hi=1 << 40)
        else:
            sp['m'] = dict(kind='float', lo=-(1 << 50), hi=1 << 50, exp=-cfg['g'] - max(cfg['x'][2], 0))
    return sp


def _mk(F, fmt, vals, shape):
    return C.raw_fxp(F, fmt[0], fmt[1], fmt[2], vals if shape else vals[0], tuple(shape) if shape else None)


def run(F, cfg, inp):
    shape = cfg.get('shape') or []
    n = 2 if shape else 1
    if cfg.get('history'):
        # an object with a past: born integer-valued (n_frac = 0), re-formatted, then written with a raw code (or element-wise)
        sx_, nx_, fx_ = cfg['x']
        x = F.Fxp([3, 1] if shape else 3, sx_, nx_ + 2, 0)
        x.resize(sx_, nx_, fx_)
        if cfg['history'] == 'raw':
            x.set_val(C.mk_array(F, 'O' if nx_ >= 64 else ('int64' if sx_ else 'uint64'), [inp['a%d' % i] for i in range(n)], (2,)) if shape else inp['a0'], raw=True)
        else:
            src = _mk(F, cfg['x'], [inp['a%d' % i] for i in range(n)], shape)
            x.equal(src)
    else:
        x = _mk(F, cfg['x'], [inp['a%d' % i] for i in range(n)], shape)
    if cfg['part'] == 'cmp':
        y = _mk(F, cfg['y'], [inp['b%d' % i] for i in range(n)], shape)
        return {op: O.snap(_PY[op](x, y)) for op in OPS}
    if cfg['part'] == 'cmp_num':
        m = inp['m']
        d = {op: O.snap(_PY[op](x, m)) for op in OPS}
        d.update({'r' + op: O.snap(_PY[op](m, x)) for op in ('lt', 'ge')})      # reflected: number on the left
        return d
    ob = dict(get_val=O.snap(x.get_val()), as_float=O.snap(x.astype(float)), as_int=O.snap(x.astype(int)), raw=O.snap(x.raw()),
              uraw=O.snap(x.uraw()), call=O.snap(x()))
    if shape:
        # the same conversions on derived objects: an element taken by indexing, and a (keep-mode) shift by zero
        e = x[1]
        ob['elem'] = dict(bool_=bool(e), float_=type(e).__float__(e), int_=type(e).__int__(e), call=O.snap(e()), raw=O.snap(e.raw()))
    else:
        x.config.shifting = 'keep'
        z = x >> 0
        ob['shifted'] = dict(bool_=bool(z), float_=type(z).__float__(z), call=O.snap(z()))
    if not shape:
        # the methods behind float() / int() / bool(), called directly (on the lifted side they return terms, which the builtins would refuse)
        ob.update(float_=type(x).__float__(x), int_=type(x).__int__(x), bool_=bool(x))
    return ob


def post(cfg, inp, ob):
    shape = cfg.get('shape') or []
    n = 2 if shape else 1
    fx = cfg['x'][2]
    a = [inp['a%d' % i] for i in range(n)]
    out = []
    if cfg['part'] == 'cmp':
        fy = cfg['y'][2]
        b = [inp['b%d' % i] for i in range(n)]
        for op in OPS:
            got = O.cells(ob[op])
            for i in range(n):
                want = SP.dy_cmp((a[i], -fx), (b[i], -fy), _SYM[op])
                out.append(('%s_%d' % (op, i), SP.IFF(got[i], want)))
        return out
    if cfg['part'] == 'cmp_num':
        m = SP.dy(inp['m'])
        for op in OPS:
            out.append((op, SP.IFF(O.cells(ob[op])[0], SP.dy_cmp((a[0], -fx), m, _SYM[op]))))
        out.append(('reflected_lt', SP.IFF(O.cells(ob['rlt'])[0], SP.dy_cmp(m, (a[0], -fx), '<'))))
        out.append(('reflected_ge', SP.IFF(O.cells(ob['rge'])[0], SP.dy_cmp(m, (a[0], -fx), '>='))))
        return out
    nw = cfg['x'][1]
    for i in range(n):
        out.append(('get_val_%d' % i, SP.dy_eq(SP.dy(O.cells(ob['get_val'])[i]), (a[i], -fx))))
        out.append(('call_%d' % i, SP.dy_eq(SP.dy(O.cells(ob['call'])[i]), (a[i], -fx))))
        out.append(('astype_float_%d' % i, SP.dy_eq(SP.dy(O.cells(ob['as_float'])[i]), (a[i], -fx))))
        fl = SP.ROUND((a[i], -fx), 'floor')
        out.append(('astype_int_floor_%d' % i, SP.dy_eq(SP.dy(O.cells(ob['as_int'])[i]), (fl, 0))))
        out.append(('raw_%d' % i, T.icmp(O.cells(ob['raw'])[i], a[i], '==')))
        out.append(('uraw_%d' % i, T.icmp(O.cells(ob['uraw'])[i], T.imod_pow2(a[i], nw), '==')))
    for key, cell in (('elem', a[1] if shape else None), ('shifted', a[0] if not shape else None)):
        d = ob.get(key)
        if d is None or cell is None:
            continue
        out.append((key + ':bool()', SP.IFF(d['bool_'], T.icmp(cell, 0, '!='))))
        out.append((key + ':float()', SP.dy_eq(SP.dy(d['float_']), (cell, -fx))))
        out.append((key + ':call', SP.dy_eq(SP.dy(O.cells(d['call'])[0]), (cell, -fx))))
        if 'int_' in d:
            out.append((key + ':int()', SP.dy_eq(SP.dy(d['int_']), (SP.ROUND((cell, -fx), 'floor'), 0))))
            out.append((key + ':raw', T.icmp(O.cells(d['raw'])[0], cell, '==')))
    if not shape:
        out.append(('float()', SP.dy_eq(SP.dy(ob['float_']), (a[0], -fx))))
        out.append(('int()', SP.dy_eq(SP.dy(ob['int_']), (SP.ROUND((a[0], -fx), 'floor'), 0))))
        out.append(('bool()', SP.IFF(ob['bool_'], T.icmp(a[0], 0, '!='))))
    return out


CANARIES = [
    dict(name='<= implemented as <',
         mutate={'objects.py': [('        return self.get_val() <= x', '        return self.get_val() < x')]},
         cfgs=[dict(part='cmp', x=[True, 8, 2], y=[False, 5, 4], shape=[])]),
    dict(name='astype(int) truncates instead of flooring',
         mutate={'objects.py': [('                    val = raw_val // self._get_conv_factor()', '                    val = np.trunc(raw_val / self._get_conv_factor())')]},
         cfgs=[dict(part='conv', x=[True, 8, 2], shape=[])]),
]
