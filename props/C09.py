"""C09 -- division family: quotient within one LSB (exact when representable, never overflowing with optimal sizing),
exact floor-division and modulo, (x//y)*y + x%y == x, raw and repr methods agree on // and %."""
import random
from sx import spec as SP, obs as O, term as T
from . import common as C

ID = 'C09'
AGEABLE = True        # a quarter of the configurations build their operands as objects with a past (props/common.py)
ENCODED = ['functions.truediv', 'functions.floordiv', 'functions.mod', 'functions._function_over_two_vars', 'functions._get_sizing',
           'Fxp.__truediv__', 'Fxp.__floordiv__', 'Fxp.__mod__', 'Fxp.set_val', 'Fxp.__init__']
ASSUMPTIONS = [
    'divisor code != 0 (the real code returns 0 silently for a zero divisor; excluded by the property)',
    'layer 1 (n_word <= 5): the specification is independent of any division operator: q*D <= N < (q+1)*D stated through multiplication',
    'layer 2 (6 <= n_word <= 26): the quotient kernel floor(N/D) is a term shared between the overlay model of NumPy // and the specification; '
    'decided is that fxpmath feeds it the correctly pre-scaled operands, sizes the result so that its range fits and stores it unchanged',
    'the repr method of x/y (a float64 division followed by a store) is decided for concrete divisor codes only (part true_repr: every dividend code of words '
    'up to 8 bits symbolic, divisor codes enumerated; the correctly rounded float quotient by a constant is modelled exactly, sx/term.py _fdiv_const); '
    'with a symbolic divisor it is outside the model',
]


def _fm(maxw):
    return [(s, n, f) for s in (True, False) for n in range(1, maxw + 1) for f in sorted(set([-1, 0, n // 2, n, n + 2]))]


def configs(tier, seed):
    rng = random.Random(seed)
    out = []
    small = _fm(5)
    pairs = [(x, y) for x in small for y in small]
    for x, y in C.pick(pairs, 90 if tier == 'quick' else len(pairs), rng):
        r = rng.choice(('trunc', 'around', 'floor'))
        for part in ('true', 'floor', 'mod'):
            out.append(dict(part=part, layer=1, x=list(x), y=list(y), rounding=r))
        if tier == 'thorough' or rng.random() < 0.3:
            out.append(dict(part='identity', layer=1, x=list(x), y=list(y), rounding=r))
    big = [(s, n, f) for s in (True, False) for n in (6, 8, 12, 16, 20, 26) for f in sorted(set([0, n // 2, n]))]
    bp = [(x, y) for x in big for y in big if x[1] + y[1] + 2 <= 53]
    for x, y in C.pick(bp, 40 if tier == 'quick' else 600, rng):
        for part in ('true', 'floor', 'mod'):
            out.append(dict(part=part, layer=2, x=list(x), y=list(y), rounding='trunc'))
    # repr method of x / y: float division by a concrete divisor code (the dividend is symbolic)
    rp = [(s, n, f) for s in (True, False) for n in (2, 5, 7, 8) for f in sorted(set([0, n // 2, n]))]
    for _ in range(40 if tier == 'quick' else 300):
        x, y = rng.choice(rp), rng.choice(rp)
        lo, hi = SP.limits(y[0], y[1])
        cands = [c for c in range(lo, hi + 1) if c != 0]
        big_odd = [c for c in cands if (abs(c) // (abs(c) & -abs(c))) >= 49]
        bs = {rng.choice(cands), rng.choice((-1, 1, 3, hi, lo)) if y[0] else rng.choice((1, 3, hi))}
        for b in sorted(c for c in bs if c != 0 and lo <= c <= hi):
            out.append(dict(part='true_repr', layer=1, x=list(x), y=list(y), rounding=rng.choice(SP.ROUNDINGS), b=b,
                            route=rng.choice(('operator', 'function'))))
        if big_odd:
            # divisors whose reciprocal is not a double close enough to survive a multiplication (odd part >= 49), dividend word wide enough
            # to hold multiples of them, directed rounding
            out.append(dict(part='true_repr', layer=1, x=list(x if x[1] >= 7 else (x[0], 8, x[2] % 9)), y=list(y), rounding=rng.choice(('trunc', 'floor', 'ceil', 'fix')),
                            b=rng.choice(big_odd), route=rng.choice(('operator', 'function'))))
    return out


def cost(cfg):
    if cfg['part'] == 'true_repr':
        return 400
    return (20 if cfg['part'] == 'identity' else 4) * (2 if cfg['layer'] == 1 else 1)


def inputs(cfg):
    lo, hi = SP.limits(cfg['x'][0], cfg['x'][1])
    lo2, hi2 = SP.limits(cfg['y'][0], cfg['y'][1])
    if cfg['part'] == 'true_repr':
        return {'a': dict(kind='int', lo=lo, hi=hi), 'b': dict(kind='const', value=cfg['b'])}
    return {'a': dict(kind='int', lo=lo, hi=hi), 'b': dict(kind='int', lo=lo2, hi=hi2)}


def assume(cfg, inp):
    return T.icmp(inp['b'], 0, '!=')


def _snap(z):
    return dict(val=O.snap(z.val), fmt=C.fmt_of(z), status={k: bool(z.status[k]) for k in ('overflow', 'underflow', 'inaccuracy')})


def run(F, cfg, inp):
    (sx, nx, fx), (sy, ny, fy) = cfg['x'], cfg['y']

    def ops(method):
        x = C.raw_fxp(F, sx, nx, fx, inp['a'], op_method=method)
        x.config.rounding = cfg['rounding']
        y = C.raw_fxp(F, sy, ny, fy, inp['b'], op_method=method)
        return x, y
    p = cfg['part']
    x, y = ops('raw')
    if p == 'true':
        return dict(z=_snap(x / y))
    if p == 'true_repr':
        xr, yr = ops('repr')
        return dict(z=_snap(xr / yr if cfg['route'] == 'operator' else F.pkg.truediv(x, y, method='repr')))
    if p == 'floor':
        xr, yr = ops('repr')
        return dict(z=_snap(x // y), zr=_snap(xr // yr))
    if p == 'mod':
        xr, yr = ops('repr')
        return dict(z=_snap(x % y), zr=_snap(xr % yr))
    q, r = x // y, x % y
    back = q * y + r
    return dict(q=_snap(q), r=_snap(r), back=_snap(back))


def _ND(a, b, e):
    """quotient (a/b)*2^e as a fraction N/D of integers"""
    return (T.ishl(a, e) if e > 0 else a), (T.ishl(b, -e) if e < 0 else b)


def _floor_spec(q, N, D, layer):
    """q == floor(N / D), D != 0"""
    if layer == 2:
        return T.icmp(q, T.ifloordiv(N, D, zero='numpy'), '==')
    qD = T.imul(q, D)
    pos = T.icmp(D, 0, '>')
    return SP.ITE(pos, SP.AND(T.icmp(qD, N, '<='), T.icmp(N, T.iadd(qD, D), '<')),
                  SP.AND(T.icmp(qD, N, '>='), T.icmp(N, T.iadd(qD, D), '>')))


def post(cfg, inp, ob):
    (sx, nx, fx), (sy, ny, fy) = cfg['x'], cfg['y']
    a, b = inp['a'], inp['b']
    p, layer = cfg['part'], cfg['layer']
    out = []
    if p in ('true', 'true_repr'):
        z = ob['z']
        q = O.cells(z['val'])[0]
        zs, zn, zf = z['fmt']
        N, D = _ND(a, b, fy - fx + zf)                 # exact quotient in LSB units of the result
        lo, hi = SP.limits(zs, zn)
        out.append(('result_code_in_range', SP.AND(T.icmp(q, lo, '>='), T.icmp(q, hi, '<='))))
        out.append(('no_overflow_with_optimal_sizing', not (z['status']['overflow'] or z['status']['underflow'])))
        if layer == 1:
            qD = T.imul(q, D)
            err = T.iabs(T.isub(qD, N))
            out.append(('error_below_one_lsb', T.icmp(err, T.iabs(D), '<')))
            rem0 = T.icmp(T.imod(N, D, zero='numpy'), 0, '==')
            out.append(('exact_when_representable', SP.IMPLIES(rem0, T.icmp(qD, N, '=='))))
        else:
            out.append(('quotient_is_floor_of_prescaled_operands', _floor_spec(q, N, D, 2)))
        return out
    if p in ('floor', 'mod'):
        z, zr = ob['z'], ob['zr']
        q = O.cells(z['val'])[0]
        zs, zn, zf = z['fmt']
        lo, hi = SP.limits(zs, zn)
        out.append(('result_code_in_range', SP.AND(T.icmp(q, lo, '>='), T.icmp(q, hi, '<='))))
        out.append(('no_overflow_with_optimal_sizing', not (z['status']['overflow'] or z['status']['underflow'])))
        out.append(('raw_and_repr_agree', SP.AND(z['fmt'] == zr['fmt'], T.icmp(q, O.cells(zr['val'])[0], '=='))))
        N, D = _ND(a, b, fy - fx)                      # x / y as N / D
        if p == 'floor':
            # value of the result is the integer floor(x/y): code * 2^-zf
            if zf >= 0:
                fl = T.ishr(q, zf)
                out.append(('result_is_an_integer', T.icmp(T.imod_pow2(q, zf), 0, '==')))
            else:
                fl = T.ishl(q, -zf)
            out.append(('floor_division_exact', _floor_spec(fl, N, D, layer)))
        else:
            # x % y == x - y*floor(x/y) on the common grid g = max(fx, fy, zf)
            g = max(fx, fy, zf)
            X, Y, R = T.ishl(a, g - fx), T.ishl(b, g - fy), T.ishl(q, g - zf)
            if layer == 2:
                out.append(('modulo_exact', T.icmp(R, T.imod(X, Y, zero='numpy'), '==')))
            else:
                k = T.isub(X, R)
                # R has the divisor's sign (or is 0), |R| < |Y|, and X - R is a multiple of Y: stated without division
                pos = T.icmp(Y, 0, '>')
                out.append(('remainder_range_and_sign', SP.ITE(pos, SP.AND(T.icmp(R, 0, '>='), T.icmp(R, Y, '<')),
                                                               SP.AND(T.icmp(R, 0, '<='), T.icmp(R, Y, '>')))))
                out.append(('x_minus_remainder_is_multiple_of_y', T.icmp(T.imod(k, Y, zero='numpy'), 0, '==')))
        return out
    # identity (x//y)*y + x%y == x, evaluated with fxpmath's own (exact, C07) * and +
    bk = ob['back']
    return [('floordiv_times_y_plus_mod_is_x', SP.dy_eq((O.cells(bk['val'])[0], -bk['fmt'][2]), (a, -fx))),
            ('no_flags', not any(bk['status'].values()) and not any(ob['q']['status'].values()) and not any(ob['r']['status'].values()))]


CANARIES = [
    dict(name='truediv pre-scales the dividend by one bit too few',
         mutate={'functions.py': [('return (x.val * precision_cast(2**(n_frac - x.n_frac + y.n_frac))) // y.val', 'return (x.val * precision_cast(2**(n_frac - x.n_frac + y.n_frac - 1))) // y.val')]},
         cfgs=[dict(part='true', layer=1, x=[True, 4, 2], y=[True, 3, 1], rounding='trunc')]),
    dict(name='optimal size of the quotient one integer bit short',
         mutate={'functions.py': [('    n_int = x.n_int + y.n_frac + signed\n    n_frac = x.n_frac + y.n_int', '    n_int = x.n_int + y.n_frac\n    n_frac = x.n_frac + y.n_int')]},
         cfgs=[dict(part='true', layer=1, x=[True, 4, 2], y=[True, 3, 3], rounding='trunc')]),
]
