"""C15 -- NumPy reductions and linear algebra on fixed-point arrays are exact: sum, cumsum, prod, cumprod, dot, trace, max, min, sort, clip,
transpose, diagonal -- through the numpy functions or the equivalent methods, over all elements or along an axis -- return fixed-point
objects whose values are exactly the mathematical results on the element values; with optimal sizing the accumulating ones never overflow."""
import itertools
import random
from sx import spec as SP, obs as O, term as T
from . import common as C

ID = 'C15'
AGEABLE = True        # a quarter of the configurations build their operands as objects with a past (props/common.py)
ENCODED = ['functions.sum', 'functions.cumsum', 'functions.prod', 'functions.cumprod', 'functions.dot', 'functions.trace', 'functions.fxp_max',
           'functions.fxp_min', 'functions.sort', 'functions.clip', 'functions.transpose', 'functions.diagonal', 'functions._function_over_one_var',
           'functions._function_over_two_vars', 'Fxp.__array_function__', 'Fxp._set_array_output_type', 'Fxp.sum', 'Fxp.cumsum', 'Fxp.prod',
           'Fxp.cumprod', 'Fxp.dot', 'Fxp.trace', 'Fxp.max', 'Fxp.min', 'Fxp.sort', 'Fxp.clip', 'Fxp.transpose', 'Fxp.diagonal', 'Fxp.set_val']
ASSUMPTIONS = [
    'every cell of the operand array(s) is an independent symbolic in-range code; operands are built through the public API (raw=True)',
    'shapes (3,), (2,2), (2,3), (3,3), length 8 for sum/cumsum/max, clip on (3,) and (2,2) only, sorted groups of at most 3 elements; n_word <= 12 (dot <= 8, prod/cumprod: at most 3 factors of <= 6 bits)',
    'the specification is written on the cell codes: sums and products as integer terms (symbolic products are shared terms), max/min/sort/clip '
    'as min/max networks (the sorted sequence is unique, so "ordered permutation" is stated as equality with the sorting network output)',
    'clip bounds are plain numbers on the operand grid with lower <= upper; the lower one from three ranges below up to the maximum, the upper one from the minimum up to three ranges above',
]
LINEAR = ('sum', 'cumsum', 'trace', 'max', 'min', 'sort', 'clip', 'transpose', 'diagonal')
SHAPES = ([3], [2, 2], [2, 3], [3, 3])


def _fmts(maxw):
    return [(s, n, f) for s in (True, False) for n in (1, 2, 3, 5, 8, 12) if n <= maxw for f in sorted(set([-1, 0, n // 2, n]))]


def _axes(fn, shape):
    nd = len(shape)
    if fn in ('transpose', 'clip'):
        return [None]
    if fn in ('trace', 'diagonal'):
        return [None] if nd == 2 else []
    if fn == 'sort':
        return [-1] + ([0] if nd == 2 else [])
    return [None] + list(range(nd))


def configs(tier, seed):
    rng = random.Random(seed)
    out = []
    allc = []
    for fn in LINEAR:
        shapes = list(SHAPES) + ([[8]] if fn in ('sum', 'cumsum', 'max') else [])
        if fn == 'clip':
            shapes = [[3], [2, 2]]       # the vectorised clip forks three ways per cell on the int/float kind of its result: 3^k paths
        for shape in shapes:
            for ax in _axes(fn, shape):
                for x in _fmts(12):
                    if fn in ('trace', 'diagonal'):
                        for off in (-1, 0, 1):            # (offset diagonals of square and non-square matrices)
                            allc.append(dict(fn=fn, x=list(x), shape=shape, axis=ax, offset=off))
                    else:
                        allc.append(dict(fn=fn, x=list(x), shape=shape, axis=ax))
    for c in C.pick(allc, 260 if tier == 'quick' else len(allc), rng):
        out.append(dict(c, route=rng.choice(('numpy', 'method'))))
    if tier == 'quick':
        # clip is rare in the sample above: always one unsigned and one signed operand on three cells
        for sg in (False, True):
            cands = [c for c in allc if c['fn'] == 'clip' and c['shape'] == [3] and c['x'][0] is sg and c['x'][1] <= 8]
            out.append(dict(rng.choice(cands), route=rng.choice(('numpy', 'method'))))
    pc = []
    for fn in ('prod', 'cumprod'):
        for shape in ([2], [3], [2, 2], [3, 2], [2, 3]):
            for ax in [None] + list(range(len(shape))):
                k = C.size_of(shape) if ax is None else shape[ax]
                if k > 3:
                    continue
                for x in _fmts(6):
                    pc.append(dict(fn=fn, x=list(x), shape=shape, axis=ax))
    for c in C.pick(pc, 60 if tier == 'quick' else len(pc), rng):
        out.append(dict(c, route=rng.choice(('numpy', 'method'))))
    # operands that are not C-contiguous (the .T of an object): flattening reductions must follow the logical order, not the memory order
    tr = [dict(fn=fn, x=list(x), shape=shape, axis=ax) for fn in ('cumprod', 'cumsum', 'sum', 'prod', 'sort', 'max')
          for shape in ([2, 2], [2, 3]) for ax in (None, 0, 1) for x in _fmts(3)
          if not (fn in ('prod', 'cumprod') and (C.size_of(shape) if ax is None else shape[ax]) > 4) and not (fn == 'sort' and ax is None)]
    for c in C.pick(tr, 24 if tier == 'quick' else len(tr), rng):
        out.append(dict(c, route=rng.choice(('numpy', 'method')), age='transposed', axis=(-1 if c['fn'] == 'sort' and c['axis'] == 1 else c['axis'])))
    dc = []
    for (sa, sb) in (([3], [3]), ([2, 2], [2, 2]), ([3, 3], [3]), ([2, 3], [3, 2]), ([2], [2, 2])):
        for x in _fmts(8):
            for y in _fmts(8):
                dc.append(dict(fn='dot', x=list(x), y=list(y), shape=sa, shape2=sb, axis=None))
    for c in C.pick(dc, 60 if tier == 'quick' else 6000, rng):
        out.append(dict(c, route=rng.choice(('numpy', 'method'))))
    return out


def cost(cfg):
    k = C.size_of(cfg['shape'])
    if cfg['fn'] in ('sort', 'max', 'min', 'clip'):
        return k * k * 4
    return k * (5 if cfg['fn'] in ('dot', 'prod', 'cumprod') else 1)


def inputs(cfg):
    lo, hi = SP.limits(cfg['x'][0], cfg['x'][1])
    sp = {'a%d' % i: dict(kind='int', lo=lo, hi=hi) for i in range(C.size_of(cfg['shape']))}
    if cfg['fn'] == 'dot':
        lo2, hi2 = SP.limits(cfg['y'][0], cfg['y'][1])
        for i in range(C.size_of(cfg['shape2'])):
            sp['b%d' % i] = dict(kind='int', lo=lo2, hi=hi2)
    if cfg['fn'] == 'clip':
        span = hi - lo + 1
        sp['lo'] = dict(kind='int', lo=lo - 2 * span, hi=hi)          # the lower bound may lie below the format's range (negative for unsigned operands),
        sp['hi'] = dict(kind='int', lo=lo, hi=hi + 2 * span)          # the upper one above it; the clipped values are representable either way
    return sp


def assume(cfg, inp):
    if cfg['fn'] == 'clip':
        return T.icmp(inp['lo'], inp['hi'], '<=')
    return True


def _st(z):
    return {k: bool(z.status[k]) for k in ('overflow', 'underflow', 'inaccuracy')}


def run(F, cfg, inp):
    sx, nx, fx = cfg['x']
    shape = tuple(cfg['shape'])
    a = [inp['a%d' % i] for i in range(C.size_of(shape))]
    x = C.raw_fxp(F, sx, nx, fx, a, shape)
    fn, ax, route = cfg['fn'], cfg['axis'], cfg['route']
    np_ = F.np
    if fn == 'dot':
        sy, ny, fy = cfg['y']
        shape2 = tuple(cfg['shape2'])
        y = C.raw_fxp(F, sy, ny, fy, [inp['b%d' % i] for i in range(C.size_of(shape2))], shape2)
        z = np_.dot(x, y) if route == 'numpy' else x.dot(y)
    elif fn == 'clip':
        lo, hi = C.value_of(F, inp['lo'], fx), C.value_of(F, inp['hi'], fx)
        z = np_.clip(x, lo, hi) if route == 'numpy' else x.clip(lo, hi)
    elif fn in ('trace', 'diagonal'):
        off = cfg.get('offset', 0)
        z = getattr(np_, fn)(x, offset=off) if route == 'numpy' else getattr(x, fn)(offset=off)
    elif fn == 'transpose':
        z = getattr(np_, fn)(x) if route == 'numpy' else getattr(x, fn)()
    elif fn == 'sort':
        z = np_.sort(x, axis=ax) if route == 'numpy' else x.sort(axis=ax)
        if z is None:
            z = x                       # (an in-place sort would return None)
    else:
        z = getattr(np_, fn)(x, axis=ax) if route == 'numpy' else getattr(x, fn)(axis=ax)
    isf = hasattr(z, 'n_frac') and hasattr(z, 'status')
    if not isf:
        return dict(is_fxp=False, type=type(z).__name__)
    return dict(is_fxp=True, z=C.snap_fxp(z, False), status=_st(z), x=O.snap(x.val))


# ---- specification on the flat row-major cell list

def _index_groups(shape, axis):
    """list of groups (lists of flat indices) reduced together along axis, in result order; result shape"""
    if axis is None:
        return [list(range(C.size_of(shape)))], ()
    nd = len(shape)
    axis = axis % nd
    strides = [1] * nd
    for i in range(nd - 2, -1, -1):
        strides[i] = strides[i + 1] * shape[i + 1]
    rshape = tuple(s for i, s in enumerate(shape) if i != axis)
    groups = []
    for idx in itertools.product(*[range(s) for i, s in enumerate(shape) if i != axis]):
        full = list(idx)
        g = []
        for k in range(shape[axis]):
            cur = full[:axis] + [k] + full[axis:]
            g.append(sum(c * st for c, st in zip(cur, strides)))
        groups.append(g)
    return groups, rshape


def _fold(f, xs):
    r = xs[0]
    for v in xs[1:]:
        r = f(r, v)
    return r


def _sorted_net(xs):
    xs = list(xs)
    n = len(xs)
    for i in range(n):
        for j in range(n - 1 - i):
            lo, hi = T.imin(xs[j], xs[j + 1]), T.imax(xs[j], xs[j + 1])
            xs[j], xs[j + 1] = lo, hi
    return xs


def spec(cfg, inp):
    """(expected result shape, list of expected cells as dyadics (num, exp))"""
    sx, nx, fx = cfg['x']
    shape = tuple(cfg['shape'])
    a = [inp['a%d' % i] for i in range(C.size_of(shape))]
    fn, ax = cfg['fn'], cfg['axis']
    if fn in ('sum', 'max', 'min', 'prod'):
        groups, rshape = _index_groups(shape, ax)
        f = {'sum': T.iadd, 'max': T.imax, 'min': T.imin, 'prod': T.imul}[fn]
        cells = [(_fold(f, [a[i] for i in g]), -fx * (len(g) if fn == 'prod' else 1)) for g in groups]
        return rshape, cells
    if fn in ('cumsum', 'cumprod'):
        f = T.iadd if fn == 'cumsum' else T.imul
        if ax is None:
            groups, rshape = [list(range(len(a)))], (len(a),)
        else:
            groups, _ = _index_groups(shape, ax)
            rshape = shape
        cells = [None] * len(a)
        for g in groups:
            acc = None
            for k, i in enumerate(g):
                acc = a[i] if acc is None else f(acc, a[i])
                cells[i] = (acc, -fx * ((k + 1) if fn == 'cumprod' else 1))
        return rshape, cells
    if fn == 'sort':
        groups, _ = _index_groups(shape, ax)
        cells = [None] * len(a)
        for g in groups:
            for i, v in zip(g, _sorted_net([a[i] for i in g])):
                cells[i] = (v, -fx)
        return shape, cells
    if fn == 'clip':
        lo, hi = inp['lo'], inp['hi']
        return shape, [(T.imin(T.imax(v, lo), hi), -fx) for v in a]
    if fn == 'transpose':
        if len(shape) == 1:
            return shape, [(v, -fx) for v in a]
        r, c = shape
        return (c, r), [(a[i * c + j], -fx) for j in range(c) for i in range(r)]
    if fn in ('diagonal', 'trace'):
        r, c = shape
        off = cfg.get('offset', 0)
        d = [a[i * c + (i + off)] for i in range(r) if 0 <= i + off < c]
        if fn == 'diagonal':
            return (len(d),), [(v, -fx) for v in d]
        return (), [(_fold(T.iadd, d), -fx)]
    if fn == 'dot':
        sy, ny, fy = cfg['y']
        shape2 = tuple(cfg['shape2'])
        b = [inp['b%d' % i] for i in range(C.size_of(shape2))]
        A = [a] if len(shape) == 1 else [a[i * shape[1]:(i + 1) * shape[1]] for i in range(shape[0])]
        if len(shape2) == 1:
            Bc = [b]
        else:
            Bc = [[b[k * shape2[1] + j] for k in range(shape2[0])] for j in range(shape2[1])]
        cells = [(_fold(T.iadd, [T.imul(u, v) for u, v in zip(row, col)]), -(fx + fy)) for row in A for col in Bc]
        rshape = (() if len(shape) == 1 else (shape[0],)) + (() if len(shape2) == 1 else (shape2[1],))
        return rshape, cells
    raise ValueError(fn)


def post(cfg, inp, ob):
    if not ob.get('is_fxp'):
        return [('result_is_a_fixed_point_object', False)]
    z = ob['z']
    rshape, want = spec(cfg, inp)
    codes = O.cells(z['val'])
    fz = z['n_frac']
    out = [('result_shape', tuple(z['val'].shape) == tuple(rshape)), ('n_cells', len(codes) == len(want))]
    for i, (c, w) in enumerate(zip(codes, want)):
        out.append(('value_%d' % i, SP.dy_eq((c, -fz), w)))
    st = ob['status']
    if not (cfg['fn'] == 'sort' and cfg['route'] == 'method' and cfg.get('age') == 'sticky_flags'):
        # (x.sort() sorts in place and hands back x itself: flags raised on x earlier are still its own)
        out.append(('no_overflow_or_underflow', not (st['overflow'] or st['underflow'])))
    shape = tuple(cfg['shape'])
    a = [inp['a%d' % i] for i in range(C.size_of(shape))]
    if not (cfg['fn'] == 'sort' and cfg['route'] == 'method'):          # x.sort() sorts in place, like ndarray.sort()
        out.append(('operand_unchanged', SP.AND(*[T.icmp(u, v, '==') for u, v in zip(O.cells(ob['x']), a)])))
    lo, hi = SP.limits(z['signed'], z['n_word'])
    out.append(('result_codes_in_range', SP.AND(*[SP.AND(T.icmp(c, lo, '>='), T.icmp(c, hi, '<=')) for c in codes])))
    return out


CANARIES = [
    dict(name='sum result sized from the operand word alone (no growth for the additions)',
         mutate={'functions.py': [('    signed = x.signed\n    n_word = int(np.ceil(np.log2(x.size))) + x.n_word\n    n_frac = x.n_frac\n    n_int = n_word - int(signed) - n_frac\n    optimal_size = (signed, n_word, n_int, n_frac)\n\n    kwargs[\'axis\'] = axis\n    return _function_over_one_var(repr_func=np.sum',
                                   '    signed = x.signed\n    n_word = x.n_word\n    n_frac = x.n_frac\n    n_int = n_word - int(signed) - n_frac\n    optimal_size = (signed, n_word, n_int, n_frac)\n\n    kwargs[\'axis\'] = axis\n    return _function_over_one_var(repr_func=np.sum')]},
         cfgs=[dict(fn='sum', x=[True, 5, 2], shape=[3], axis=None, route='numpy')]),
    dict(name='dot aligns the result with the fraction length of the first operand only',
         mutate={'functions.py': [('        return np.dot(x.val, y.val, **kwargs) * precision_cast(2**(n_frac - x.n_frac - y.n_frac))',
                                   '        return np.dot(x.val, y.val, **kwargs) * precision_cast(2**(n_frac - x.n_frac - x.n_frac))')]},
         cfgs=[dict(fn='dot', x=[True, 5, 0], y=[True, 5, 2], shape=[3], shape2=[3], axis=None, route='method')]),
]
