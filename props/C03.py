"""C03 -- wrap overflow is exact two's-complement modular arithmetic (congruence, period, register behaviour)."""
import random
from sx import spec as SP, obs as O, term as T
from . import common as C

ID = 'C03'
ENCODED = ['utils.wrap', 'Fxp._overflow_action', 'Fxp.set_val', 'Fxp._round', 'Fxp._format_inupt_val', 'utils.int_array',
           'functions.add', 'functions.sub', 'functions.mul', 'functions._function_over_two_vars']
ASSUMPTIONS = [
    'the congruence is stated against the reference rounding ROUND of sx/spec.py (whose contracts C05 checks independently) but not against its OVERFLOW',
    'float inputs are dyadic rationals on the grid 2^-(n_frac+64)',
    'n_word >= 64: Python-int inputs |v| < 2^1000 (value mode with n_frac = 0, and raw mode); period part: |v| < 2^(n_word+66), |j| <= 2^64',
]
WIDE = (64, 65, 72, 96, 127, 128, 129, 200, 256)


def _cfg(part, s, n, f, r, carrier='pyfloat', **kw):
    d = dict(part=part, signed=s, n_word=n, n_frac=f, rounding=r, carrier=carrier)
    d.update(kw)
    return d


def configs(tier, seed):
    rng = random.Random(seed)
    fm = C.formats_q() if tier == 'quick' else C.formats_core()
    if tier == 'quick':
        fm = fm + [f for f in C.pick(C.formats_core(), 24, rng) if f not in fm]
    out = []
    for (s, n, f) in fm:
        for r in SP.ROUNDINGS:
            out.append(_cfg('congruence', s, n, f, r, 'pyfloat'))
            out.append(_cfg('congruence', s, n, f, r, 'pyint'))
        if tier == 'thorough' or rng.random() < 0.3:
            r = rng.choice(SP.ROUNDINGS)
            out.append(_cfg('period', s, n, f, r, 'pyfloat'))
            if f <= n:
                out.append(_cfg('period', s, n, f, r, 'pyint'))
    # NumPy scalar carriers of narrow dtypes: the scaled value must not be computed (and wrapped) in the carrier's own width
    narrow = [(s, n, f) for (s, n, f) in C.formats_q() if 0 < f <= n + 1 and n <= 33]
    for (s, n, f) in C.pick(narrow, 30 if tier == 'quick' else len(narrow), rng):
        for car in (('np:int8', 'np:int16', 'np:uint8', 'np:uint16', 'np:int32', 'np:float32') if tier == 'thorough' else
                    C.pick(('np:int8', 'np:int16', 'np:uint8', 'np:uint16', 'np:int32', 'np:float32'), 2, rng)):
            out.append(_cfg('congruence', s, n, f, rng.choice(SP.ROUNDINGS), car))
    wide = WIDE if tier == 'thorough' else C.pick(WIDE, 4, rng)
    for n in wide:
        for s in (True, False):
            for f in ((0, n // 2, n) if tier == 'thorough' else (0, n // 2)):
                out.append(_cfg('wide', s, n, f, 'trunc', 'pyint', raw=True))
                if f == 0:
                    out.append(_cfg('wide', s, n, f, 'trunc', 'pyint', raw=False))
                out.append(_cfg('wide_period', s, n, f, 'trunc', 'pyint', raw=True))
    # a wrapping object re-formatted in place (sign flip and / or wider word, same fraction length): the code is wrapped into the new word
    for (s, n, f) in [(True, 8, 0), (False, 8, 0), (True, 5, 2), (False, 6, 3), (True, 16, 8)] + (C.pick([q for q in C.formats_core() if q[1] <= 24], 40, rng) if tier == 'thorough' else []):
        for (s2, dn) in ((not s, 0), (not s, 4), (s, 3), (not s, -2)):
            if n + dn >= 1:
                out.append(_cfg('reformat', s, n, f, 'trunc', 'code', s2=s2, n2=n + dn, how=rng.choice(('partial', 'full', 'dtype'))))
    # arithmetic results stored with wrap into an `out` object of the operands' format: n_word-bit register
    regs = [(True, 8, 0), (False, 8, 0), (True, 5, 2), (False, 13, 13), (True, 16, 8), (True, 26, 0),
            (True, 32, 16), (True, 40, 20), (False, 33, 0), (True, 52, 20), (True, 64, 32), (False, 70, 10)]     # (products of 64 .. 140 bits)
    if tier == 'thorough':
        regs += C.pick([(s, n, f) for (s, n, f) in C.formats_core() if 0 <= f <= n and n <= 26], 60, rng)
    for (s, n, f) in regs:
        for op in ('add', 'sub', 'mul'):
            if op == 'mul' and n > 40:
                continue                  # (beyond 2^63 after scaling the float -> int64 cast of the real code is undefined: outside the model, see the open finding)
            if op == 'mul' and n > 26:
                # a symbolic x symbolic product of this width is beyond the solver: the second factor is a constant code per
                # configuration (every first factor is still decided), chosen so that the raw product passes 2^63 and 2^64
                lo, hi = SP.limits(s, n)
                if n <= 32:
                    ycs = (hi, (1 << (n - 2)) + 1) if tier == 'quick' else (hi, lo if s else hi - 1, (1 << (n - 2)) + 1, rng.randrange(lo, hi + 1))
                else:
                    # (a dense 40-bit constant makes the verdict a 80-bit multiplier problem that can exceed the time budget under load:
                    #  constants with at most three set bits)
                    ycs = ((1 << (n - 2)) + 1,) if tier == 'quick' else ((1 << (n - 2)) + 1, (1 << (n - 2)) + (1 << 7) + 1, -((1 << (n - 3)) + 3) if s else (1 << (n - 1)) + 2)
                for yc in ycs:
                    if tier == 'quick' and f == 0:
                        continue
                    out.append(_cfg('register', s, n, f, 'trunc', 'code', op=op, ycode=yc))
                for yc in ((1 << (n - 2), (1 << (n - 3)) + (1 << (n - 6))) if (n == 40 or tier != 'quick') else ()):
                    out.append(_cfg('register', s, n, f, 'trunc', 'code', op=op, ycode=yc, nout=52))      # few significant bits: the product is a double
                continue
            out.append(_cfg('register', s, n, f, 'trunc', 'code', op=op))
    return out


def cost(cfg):
    return {'reformat': 1, 'wide_period': 100, 'wide': 30, 'period': 5, 'register': 2}.get(cfg['part'], 1)


def inputs(cfg):
    s, n, f = cfg['signed'], cfg['n_word'], cfg['n_frac']
    p = cfg['part']
    if p == 'congruence' and cfg['carrier'].startswith('np:'):
        from . import C01 as P01
        d = cfg['carrier'][3:]
        if d in P01.INT_DT:
            lo, hi = P01.INT_DT[d]
            return {'v': dict(kind='int', lo=lo, hi=hi)}
        sig, emin, emax = P01.FLT_DT[d]
        b = min(40, 62 - f)
        return {'v': dict(kind='float', lo=-(1 << (b + 8)) + 1, hi=(1 << (b + 8)) - 1, exp=-8, sig=sig)}
    if p in ('congruence', 'period'):
        if cfg['carrier'] == 'pyint':
            b = min(53, 62 - f)
            m = (1 << b) - 1 if b > 0 else 0
            sp = {'v': dict(kind='int', lo=-m, hi=m)}
        else:
            G, top = (64, 62) if p == 'congruence' else (4, 44)      # period: both inputs stay exact doubles (<= 48 significant bits)
            exp = -(f + G)
            b = min(53, top - f) - exp
            m = (1 << max(b, 0)) - 1
            sp = {'v': dict(kind='float', lo=-m, hi=m, exp=exp)}
        if p == 'period':
            sp['j'] = dict(kind='int', lo=-(1 << 12), hi=(1 << 12))
        return sp
    if p in ('wide', 'wide_period'):
        B = 1000 if p == 'wide' else n + 66          # two wide stores in one path: smaller magnitude window for the period part
        sp = {'v': dict(kind='int', lo=-(1 << B) + 1, hi=(1 << B) - 1)}
        if p == 'wide_period':
            sp['j'] = dict(kind='int', lo=-(1 << 64), hi=(1 << 64))
        return sp
    lo, hi = SP.limits(s, n)
    if p == 'reformat':
        return {'a': dict(kind='int', lo=lo, hi=hi)}
    if cfg.get('ycode') is not None:
        return {'a': dict(kind='int', lo=lo, hi=hi), 'b': dict(kind='const', value=cfg['ycode'])}
    return {'a': dict(kind='int', lo=lo, hi=hi), 'b': dict(kind='int', lo=lo, hi=hi)}


def _second(cfg, inp):
    """v + j * 2^(n_word - n_frac), exactly, in the same carrier; None when outside the window"""
    n, f = cfg['n_word'], cfg['n_frac']
    v, j = inp['v'], inp['j']
    if cfg['part'] == 'wide_period':
        return v + j * (1 << n)                       # raw mode: period 2^n_word on the code
    if cfg['carrier'] == 'pyint':
        return v + j * (1 << (n - f))
    if isinstance(v, (T.SFloat,)):
        return T.SFloat(T.iadd(v.num, T.imul(j, 1 << (n - f - v.exp))), v.exp)
    from fractions import Fraction
    r = Fraction(v) + j * Fraction(2) ** (n - f)
    assert Fraction(float(r)) == r
    return float(r)


def assume(cfg, inp):
    if cfg['part'] == 'period':
        # keep the shifted input inside the core window (|v| < 2^53, |v * 2^n_frac| < 2^62)
        f = cfg['n_frac']
        b = min(53, (62 if cfg['carrier'] == 'pyint' else 44) - f)
        v2 = _second(cfg, inp)
        num, e = SP.dy(v2)
        lim = (1 << (b - e)) if b - e >= 0 else 0
        win = SP.AND(T.icmp(num, lim, '<'), T.icmp(num, -lim, '>'))
        if cfg['rounding'] in ('trunc', 'fix'):
            # rounding toward zero commutes with a shift by whole periods only when the sign does not change
            # (ROUND(r + M) == ROUND(r) + M needs r and r + M on the same side of zero, or r integral): the
            # congruence of the *rounded* input is what the property states; see DESIGN.md, C03
            n1, _ = SP.dy(inp['v'])
            same = SP.OR(SP.AND(T.icmp(n1, 0, '>='), T.icmp(num, 0, '>=')), SP.AND(T.icmp(n1, 0, '<='), T.icmp(num, 0, '<=')))
            return SP.AND(win, same)
        return win
    return True


def run(F, cfg, inp):
    s, n, f = cfg['signed'], cfg['n_word'], cfg['n_frac']
    p = cfg['part']
    mk = lambda: F.Fxp(None, s, n, f, rounding=cfg['rounding'], overflow='wrap')
    if p in ('congruence', 'wide'):
        x = mk()
        v = inp['v']
        if cfg['carrier'].startswith('np:'):
            v = C.mk_scalar(F, cfg['carrier'][3:], v)
        x.set_val(v, raw=cfg.get('raw', False))
        return dict(val=O.snap(x.val), status={k: bool(v) for k, v in x.status.items()})
    if p in ('period', 'wide_period'):
        x, y = mk(), mk()
        x.set_val(inp['v'], raw=cfg.get('raw', False))
        v2 = _second(cfg, inp)
        y.set_val(v2, raw=cfg.get('raw', False))
        return dict(val=O.snap(x.val), val2=O.snap(y.val))
    if p == 'reformat':
        x = mk()
        x.set_val(inp['a'], raw=True)
        s2, n2 = cfg['s2'], cfg['n2']
        if cfg['how'] == 'partial':
            x.resize(**{k_: v_ for k_, v_, old in (('signed', s2, s), ('n_word', n2, n)) if v_ != old})
        elif cfg['how'] == 'full':
            x.resize(s2, n2, f)
        else:
            x.resize(dtype=C.fmt_str(s2, n2, f))
        return dict(val=O.snap(x.val), fmt=C.fmt_of(x))
    # operands are ordinary (saturating) objects holding in-range codes; only the destination register wraps
    x, y, out = F.Fxp(None, s, n, f), F.Fxp(None, s, n, f), mk()
    if cfg.get('nout'):
        out = F.Fxp(None, s, cfg['nout'], f, rounding=cfg['rounding'], overflow='wrap')      # a register wider than the operands
    x.set_val(inp['a'], raw=True)
    y.set_val(inp['b'], raw=True)
    fn = getattr(F.pkg, cfg['op'])
    z = fn(x, y, out=out)
    return dict(val=O.snap(z.val), is_out=z is out, x=O.snap(x.val), y=O.snap(y.val))


def post(cfg, inp, ob):
    s, n, f, r = cfg['signed'], cfg['n_word'], cfg['n_frac'], cfg['rounding']
    lo, hi = SP.limits(s, n)
    p = cfg['part']
    q = O.cells(ob['val'])[0]
    inr = SP.AND(T.icmp(q, lo, '>='), T.icmp(q, hi, '<='))
    if p in ('congruence', 'wide'):
        rr = SP.ROUND(SP.scaled(inp['v'], 0 if cfg.get('raw') else f), r)
        out = [('in_range', inr), ('congruent_mod_2^n_word', T.icmp(T.imod_pow2(T.isub(q, rr), n), 0, '=='))]
        out.append(('overflow_flag', SP.IFF(ob['status']['overflow'], T.icmp(rr, hi, '>')) if not isinstance(T.icmp(rr, hi, '>'), bool)
                    else ob['status']['overflow'] == T.icmp(rr, hi, '>')))
        out.append(('underflow_flag', SP.IFF(ob['status']['underflow'], T.icmp(rr, lo, '<'))))
        if p == 'wide':
            out.append(('extended_prec', ob['status'].get('extended_prec') is True))
        return out
    if p == 'reformat':
        s2, n2 = cfg['s2'], cfg['n2']
        lo2, hi2 = SP.limits(s2, n2)
        return [('new_format', ob['fmt'] == [s2, n2, f]), ('in_range_of_new_word', SP.AND(T.icmp(q, lo2, '>='), T.icmp(q, hi2, '<='))),
                ('code_wrapped_into_new_word', T.icmp(q, SP.OVERFLOW(inp['a'], s2, n2, 'wrap'), '=='))]
    if p in ('period', 'wide_period'):
        return [('in_range', inr), ('same_code_after_shift_by_period', T.icmp(q, O.cells(ob['val2'])[0], '=='))]
    a, b = inp['a'], inp['b']
    if cfg['op'] == 'add':
        exact = T.iadd(a, b)
    elif cfg['op'] == 'sub':
        exact = T.isub(a, b)
    else:
        exact = T.ishr(T.imul(a, b), f) if f >= 0 else T.ishl(T.imul(a, b), -f)      # trunc rounding == floor on codes? see note
    if cfg.get('nout'):
        n = cfg['nout']
        lo_, hi_ = SP.limits(s, n)
        inr = SP.AND(T.icmp(q, lo_, '>='), T.icmp(q, hi_, '<='))
    out = [('is_out', ob['is_out'] is True), ('in_range', inr),
           ('operands_unchanged', SP.AND(T.icmp(O.cells(ob['x'])[0], a, '=='), T.icmp(O.cells(ob['y'])[0], b, '==')))]
    if cfg['op'] == 'mul' and f > 0:
        # product narrowed with rounding 'trunc' (toward zero) then wrapped
        want = SP.OVERFLOW(SP.ROUND((T.imul(a, b), -f), 'trunc'), s, n, 'wrap')
    else:
        want = SP.OVERFLOW(exact, s, n, 'wrap')
    out.append(('register_result', T.icmp(q, want, '==')))
    return out


CANARIES = [
    dict(name='wrap mask is 2^n_word instead of 2^n_word - 1',
         mutate={'utils.py': [('x = np.array(x).astype(dtype) & (m - 1) ', 'x = np.array(x).astype(dtype) & (m) ')]},
         cfgs=[_cfg('congruence', False, 8, 2, 'trunc', 'pyfloat')]),
    dict(name='sign extension threshold off by one bit (n_word instead of n_word-1)',
         mutate={'utils.py': [('x = np.where(x < (1 << (n_word-1)), x, x | (-m))', 'x = np.where(x < (1 << (n_word)), x, x | (-m))')]},
         cfgs=[_cfg('congruence', True, 8, 2, 'trunc', 'pyint')]),
]
