"""Region predicates of the open known findings (generic over concrete values and SX terms)."""
from sx import spec as SP, term as T


def wide_product_into_coarser_out(cfg, inp):
    """C03 register part, multiplication whose exact raw product has more than 53 significant bits, stored into an `out` with fewer fractional bits
    than the product has: functions.mul scales the integer product by the float 2**(n_frac_out - n_frac_x - n_frac_y)"""
    if cfg.get('part') != 'register' or cfg.get('op') != 'mul' or cfg.get('n_frac', 0) <= 0:
        return False
    p = T.imul(inp['a'], inp['b'])
    return T.b_not(T.fits53(p))            # more than 53 significant bits: the product is not a double
