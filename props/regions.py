"""Region predicates of the open known findings (generic over concrete values and SX terms)."""
from sx import spec as SP, term as T
