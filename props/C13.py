"""C13 -- bitwise operators act on the n_word-bit two's-complement word."""
import random
from sx import spec as SP, obs as O, term as T
from . import common as C

ID = 'C13'
AGEABLE = True        # a quarter of the configurations build their operands as objects with a past (props/common.py)
HANDLES_EXC = True
ENCODED = ['Fxp.__invert__', 'Fxp.__and__', 'Fxp.__or__', 'Fxp.__xor__', 'Fxp.__rand__', 'Fxp.__ror__', 'Fxp.__rxor__', 'utils.binary_invert',
           'utils.binary_and', 'utils.binary_or', 'utils.binary_xor', 'utils.twos_complement_repr', 'utils.array_support', 'Fxp.deepcopy', 'Fxp.set_val']
ASSUMPTIONS = ['operands hold arbitrary in-range codes; integer masks |m| < 2^(n_word+2)',
               'the specification is one bit-vector operator on the n_word low bits of the operand codes (independent of fxpmath)']
OPS = ('and', 'or', 'xor')
_PY = {'and': lambda a, b: a & b, 'or': lambda a, b: a | b, 'xor': lambda a, b: a ^ b}
_T = {'and': T.iand, 'or': T.ior, 'xor': T.ixor}


def configs(tier, seed):
    rng = random.Random(seed)
    nws = [1, 2, 3, 4, 5, 6, 16, 31, 32, 33, 63, 64, 65] + ([100, 128, 256] if tier == 'thorough' else [rng.choice((100, 128))])
    out = []
    for n in nws:
        wide_quick = tier == 'quick' and n >= 64      # object-dtype regime: ~40 paths per configuration, fewer combinations in quick
        for sx in (True, False):
            for f in (sorted(set([0, n // 2, n])) if not wide_quick else [rng.choice((0, n // 2, n))]):
                for sy in ((True, False) if not wide_quick else (rng.choice((True, False)),)):
                    fy = rng.choice((0, n // 2, n))
                    for op in (OPS if (tier == 'thorough' or n <= 6) else (rng.choice(OPS),)):
                        out.append(dict(part='binop', op=op, x=[sx, n, f], y=[sy, n, fy], shape=[]))
                for op in (OPS if tier == 'thorough' else (rng.choice(OPS),)):
                    out.append(dict(part='mask', op=op, x=[sx, n, f], side=rng.choice(('left', 'right'))))
                out.append(dict(part='invert', x=[sx, n, f], shape=[]))
                if (tier == 'thorough' and n <= 65) or (f == 0 and n <= 33):
                    out.append(dict(part='demorgan', x=[sx, n, f], y=[rng.choice((True, False)), n, f]))
    for n in ((2, 5, 8, 63, 64) if tier == 'quick' else (1, 2, 3, 5, 8, 16, 33, 62, 63, 64, 65, 70)):
        for sx in (True, False):
            # array (x) with scalar (y): the element-wise case fxpmath supports; array-with-array raises TypeError in
            # utils.array_support (only the first argument is iterated) and is outside the statement of C13 (DESIGN.md)
            out.append(dict(part='binop', op=rng.choice(OPS), x=[sx, n, 0], y=[not sx, n, 0], shape=[2], yscalar=True))
            out.append(dict(part='invert', x=[sx, n, n // 2], shape=[2]))
    # an object with a past: the operator is used once, the object is widened (resize / like=), and the operator is used again
    for n in ((3, 6, 16) if tier == 'quick' else (1, 3, 6, 8, 16, 31, 33, 62)):
        for sx in (True, False):
            for how in ('resize', 'like_kw'):
                out.append(dict(part='history', x=[sx, n, n // 2], grow=rng.choice((1, 2, 5)), how=how, shape=[]))
    for (n1, n2) in ((8, 9), (16, 8), (64, 65), (5, 4)):
        out.append(dict(part='mismatch', op=rng.choice(OPS), x=[True, n1, 0], y=[rng.choice((True, False)), n2, 0]))
    return out


def cost(cfg):
    return (cfg['x'][1] if cfg['x'][1] < 64 else 50 * cfg['x'][1]) * (3 if cfg.get('shape') else 1) * (4 if cfg['part'] == 'demorgan' else 1)


def inputs(cfg):
    lo, hi = SP.limits(cfg['x'][0], cfg['x'][1])
    n = 2 if cfg.get('shape') else 1
    sp = {}
    for i in range(n):
        sp['a%d' % i] = dict(kind='int', lo=lo, hi=hi)
    if cfg['part'] in ('binop', 'demorgan', 'mismatch'):
        lo2, hi2 = SP.limits(cfg['y'][0], cfg['y'][1])
        for i in range(1 if cfg.get('yscalar') else n):
            sp['b%d' % i] = dict(kind='int', lo=lo2, hi=hi2)
    if cfg['part'] == 'mask':
        w = cfg['x'][1] + 2
        sp['m'] = dict(kind='int', lo=-(1 << w) + 1, hi=(1 << w) - 1)
    return sp


def _mk(F, fmt, vals, shape):
    return C.raw_fxp(F, fmt[0], fmt[1], fmt[2], vals if shape else vals[0], tuple(shape) if shape else None)


def _fmt(z):
    return C.fmt_of(z)


def run(F, cfg, inp):
    shape = cfg.get('shape') or []
    n = 2 if shape else 1
    x = _mk(F, cfg['x'], [inp['a%d' % i] for i in range(n)], shape)
    p = cfg['part']
    if p == 'history':
        first = ~x
        (x & 1), (x | 1), (x ^ 1)
        sx0, n0, f0 = cfg['x']
        if cfg['how'] == 'resize':
            x.resize(n_word=n0 + cfg['grow'])
            w = x
        else:
            w = F.Fxp(x, like=x, n_word=n0 + cfg['grow'])
        z = ~w
        m = w ^ 5
        return dict(first=O.snap(first.val), w=O.snap(w.val), z=O.snap(z.val), m=O.snap(m.val), fmt=_fmt(z), fmt_w=_fmt(w))
    if p == 'mismatch':
        y = _mk(F, cfg['y'], [inp['b0']], [])
        try:
            z = _PY[cfg['op']](x, y)
        except ValueError:
            return dict(raised='ValueError')
        return dict(raised=None, z=O.snap(z.val))
    if p == 'binop':
        y = _mk(F, cfg['y'], [inp['b0']], []) if cfg.get('yscalar') else _mk(F, cfg['y'], [inp['b%d' % i] for i in range(n)], shape)
        z = _PY[cfg['op']](x, y)
        return dict(z=O.snap(z.val), fmt=_fmt(z), x=O.snap(x.val), y=O.snap(y.val), fresh=z is not x and z is not y)
    if p == 'mask':
        m = inp['m']
        z = _PY[cfg['op']](x, m) if cfg['side'] == 'right' else _PY[cfg['op']](m, x)
        return dict(z=O.snap(z.val), fmt=_fmt(z), x=O.snap(x.val))
    if p == 'invert':
        z = ~x
        zz = ~z
        return dict(z=O.snap(z.val), zz=O.snap(zz.val), fmt=_fmt(z), fmt2=_fmt(zz), x=O.snap(x.val))
    y = _mk(F, cfg['y'], [inp['b0']], [])
    l1, r1 = ~(x & y), (~x) | (~y)
    l2, r2 = ~(x | y), (~x) & (~y)
    return dict(l1=O.snap(l1.val), r1=O.snap(r1.val), l2=O.snap(l2.val), r2=O.snap(r2.val))


def _resigned(u, signed, n):
    """code of the n-bit pattern u (0 <= u < 2^n) in the given signedness"""
    if not signed:
        return u
    return SP.ITE(T.icmp(u, 1 << (n - 1), '<'), u, T.isub(u, 1 << n))


def post(cfg, inp, ob):
    p = cfg['part']
    sx, n, f = cfg['x']
    shape = cfg.get('shape') or []
    k = 2 if shape else 1
    a = [inp['a%d' % i] for i in range(k)]
    lo, hi = SP.limits(sx, n)
    if p == 'mismatch':
        return [('different_word_lengths_rejected', ob.get('raised') == 'ValueError')]
    if p == 'history':
        if '__exc__' in ob:
            return [('no_exception:' + ob['__exc__'], False)]
        n2 = n + cfg['grow']
        c = a[0]                       # the code is kept by the widening (same n_frac, wider word)
        ua = T.imod_pow2(c, n2)
        return [('widened_format', ob['fmt_w'] == [sx, n2, f] and ob['fmt'] == [sx, n2, f]),
                ('code_kept_by_widening', T.icmp(O.cells(ob['w'])[0], c, '==')),
                ('first_invert_in_the_old_width', T.icmp(O.cells(ob['first'])[0], _resigned(T.isub((1 << n) - 1, T.imod_pow2(c, n)), sx, n), '==')),
                ('invert_after_widening_flips_every_bit_of_the_new_word', T.icmp(O.cells(ob['z'])[0], _resigned(T.isub((1 << n2) - 1, ua), sx, n2), '==')),
                ('xor_after_widening', T.icmp(O.cells(ob['m'])[0], _resigned(T.ixor(ua, 5 % (1 << n2)), sx, n2), '=='))]
    if '__exc__' in ob:
        return [('no_exception:' + ob['__exc__'], False)]
    out = []
    if p in ('binop', 'mask'):
        out.append(('result_has_x_format', ob['fmt'] == [sx, n, f]))
        if p == 'binop':
            b = [inp['b0']] * k if cfg.get('yscalar') else [inp['b%d' % i] for i in range(k)]
            out.append(('operands_unchanged', SP.AND(*([T.icmp(u, v, '==') for u, v in zip(O.cells(ob['x']), a)] +
                                                       [T.icmp(u, v, '==') for u, v in zip(O.cells(ob['y']), b)]))))
        else:
            b = [inp['m']] * k
            out.append(('operand_unchanged', T.icmp(O.cells(ob['x'])[0], a[0], '==')))
        for i, zc in enumerate(O.cells(ob['z'])):
            ua, ub = T.imod_pow2(a[i], n), T.imod_pow2(b[i], n)
            want = _resigned(_T[cfg['op']](ua, ub), sx, n)
            out.append(('bit_pattern_%d' % i, T.icmp(zc, want, '==')))
        return out
    if p == 'invert':
        out.append(('result_has_x_format', ob['fmt'] == [sx, n, f] and ob['fmt2'] == [sx, n, f]))
        for i, (zc, zzc) in enumerate(zip(O.cells(ob['z']), O.cells(ob['zz']))):
            ua = T.imod_pow2(a[i], n)
            want = _resigned(T.isub((1 << n) - 1, ua), sx, n)
            out.append(('not_pattern_%d' % i, T.icmp(zc, want, '==')))
            out.append(('double_invert_identity_%d' % i, T.icmp(zzc, a[i], '==')))
            if sx:
                out.append(('signed_not_is_minus_x_minus_lsb_%d' % i, T.icmp(zc, T.isub(T.ineg(a[i]), 1), '==')))
        out.append(('operand_unchanged', SP.AND(*[T.icmp(u, v, '==') for u, v in zip(O.cells(ob['x']), a)])))
        return out
    return [('de_morgan_and', T.icmp(O.cells(ob['l1'])[0], O.cells(ob['r1'])[0], '==')),
            ('de_morgan_or', T.icmp(O.cells(ob['l2'])[0], O.cells(ob['r2'])[0], '=='))]


CANARIES = [
    dict(name='xor computed as or',
         mutate={'utils.py': [('    z = xm ^ ym', '    z = xm | ym')]},
         cfgs=[dict(part='binop', op='xor', x=[True, 5, 0], y=[False, 5, 2], shape=[])]),
    dict(name='invert uses 2^n_word instead of 2^n_word - 1',
         mutate={'utils.py': [('    return int((1 << n_word) - 1 - x)', '    return int((1 << n_word) - x)')]},
         cfgs=[dict(part='invert', x=[True, 6, 3], shape=[])]),
]
