"""C18 -- extended precision: words of 64+ bits store and render integers bit-exactly; saturate / wrap / flags exact; bin, hex and
the bitwise operators exact at these widths; the extended-precision indicator is set exactly when n_word >= 64."""
import random
from sx import spec as SP, obs as O, term as T, sstr as S
from . import common as C
from . import C11 as P11, C13 as P13

ID = 'C18'
CFG_TIMEOUT = {'quick': 600, 'thorough': 3600}
HANDLES_EXC = False
ENCODED = ['Fxp.__init__', 'Fxp._init_size', 'Fxp.resize', 'Fxp.set_val', 'Fxp._format_inupt_val', 'Fxp._get_conv_factor', 'Fxp._round',
           'Fxp._overflow_action', 'utils.wrap', 'utils.int_array', 'Fxp.__call__', 'Fxp.__setitem__', 'Fxp.bin', 'Fxp.hex', 'utils.binary_repr',
           'utils.hex_repr', 'utils.strbin2int', 'utils.strhex2int', 'utils.str2num', 'Fxp.__invert__', 'Fxp.__and__', 'Fxp.__or__', 'Fxp.__xor__',
           'utils.binary_and', 'utils.binary_or', 'utils.binary_xor', 'utils.binary_invert', 'utils.twos_complement_repr', 'Fxp.reset']
ASSUMPTIONS = [
    'inputs are Python integers c with |c| < 2^(4*n_word) given as a code (raw=True) or as an integer value v with |v * 2^n_frac| < 2^(4*n_word)',
    'strings in raw mode are the renderings bin(prefix=0b) / hex() of an arbitrary in-range code (C11 harness reused at these widths: 64 and one of 65 / 66 (signed) in the quick tier, '
    '64, 65, 66, 72, 96, 128 in the thorough tier; wider strings are outside the bound)',
    'bitwise operators: C13 harness reused at these widths (independent bit-vector specification on the n_word low bits)',
    'the inaccuracy flag is not part of C18 (C04 states it for n_word <= 52); at these widths the real code compares through a float division '
    '(new_val / conv_factor) and raises it spuriously for exactly stored codes above 2^53 - observed, outside the given properties',
    'NumPy overlay object-dtype regime (arrays of Python integers) agrees with NumPy 2.5.3 (validated per path against the real code)',
]
NW_ALL = (64, 65, 66, 72, 96, 127, 128, 129, 200, 256)
ENTRIES = ('ctor', 'call', 'set_val', 'setitem')


def _nfs(n):
    return sorted(set([0, 1, n // 2, n - 1, n]))


def configs(tier, seed):
    rng = random.Random(seed)
    nws = NW_ALL if tier == 'thorough' else (64, 65, 128) + (rng.choice((66, 72, 96, 127, 129, 200, 256)),)
    out = []
    for n in nws:
        for s in (True, False):
            for f in _nfs(n):
                for o in SP.OVERFLOWS:
                    for mode in ('raw', 'value'):
                        ents = ENTRIES if tier == 'thorough' else (rng.choice(ENTRIES),)
                        for e in ents:
                            out.append(dict(part='store', signed=s, n_word=n, n_frac=f, overflow=o, rounding=rng.choice(SP.ROUNDINGS), mode=mode,
                                            entry=e, shape=[]))
    # extended_prec indicator exactly when n_word >= 64 (after construction, after resize in both directions, after reset)
    for n in (1, 8, 32, 52, 53, 62, 63, 64, 65, 66, 100, 128, 256):
        for s in (True, False):
            for f in sorted(set((0, 1, n // 2))):
                out.append(dict(part='extprec', signed=s, n_word=n, n_frac=f))
    # strings in raw mode and rendering: C11's harness on wide words
    # (string parsing forks on the bit length of the parsed value: about 2n paths of growing cost; 128 bits is the widest row that finishes)
    for n in ((64, rng.choice((65, 66))) if tier == 'quick' else (64, 65, 66, 72, 96, 128)):
        for s in (True, False):
            if tier == 'quick' and n != 64 and not s:
                continue                  # (a width that is not a multiple of 4: the signed word, where the hex field is wider than the word)
            out.append(dict(part='strings', c11=dict(signed=s, n_word=n, n_frac=rng.choice(_nfs(n)), shape=[], mode='raw')))
    # bitwise operators: C13's harness on wide words
    for n in ((64, 65) if tier == 'quick' else (64, 65, 66, 72, 96, 127, 128, 129, 200, 256)):
        for s in (True, False):
            f = rng.choice((0, n // 2, n))
            if tier == 'thorough' or s == (n % 2 == 0):
                out.append(dict(part='bitwise', c13=dict(part='binop', op=rng.choice(P13.OPS), x=[s, n, f], y=[rng.choice((True, False)), n, rng.choice((0, n))], shape=[])))
                out.append(dict(part='bitwise', c13=dict(part='invert', x=[s, n, f], shape=[])))
            if tier == 'thorough':
                out.append(dict(part='bitwise', c13=dict(part='mask', op=rng.choice(P13.OPS), x=[s, n, f], side=rng.choice(('left', 'right')))))
    return out


def cost(cfg):
    if cfg['part'] == 'strings':
        return 60 * cfg['c11']['n_word']
    if cfg['part'] == 'bitwise':
        return 50 * cfg['c13']['x'][1]
    if cfg['part'] == 'extprec':
        return 1
    return cfg['n_word'] * (3 if cfg['shape'] else 1)


def _k(cfg):
    return 2 if cfg.get('shape') else 1


def inputs(cfg):
    p = cfg['part']
    if p == 'strings':
        return P11.inputs(cfg['c11'])
    if p == 'bitwise':
        return P13.inputs(cfg['c13'])
    if p == 'extprec':
        lo, hi = SP.limits(cfg['signed'], cfg['n_word'])
        return {'c': dict(kind='int', lo=lo, hi=hi)}
    n, f = cfg['n_word'], cfg['n_frac']
    b = 4 * n - (f if cfg['mode'] == 'value' else 0)
    m = (1 << b) - 1
    return {'v%d' % i: dict(kind='int', lo=-m, hi=m) for i in range(_k(cfg))}


def run(F, cfg, inp):
    p = cfg['part']
    if p == 'strings':
        return P11.run(F, cfg['c11'], inp)
    if p == 'bitwise':
        return P13.run(F, cfg['c13'], inp)
    s, n, f = cfg['signed'], cfg['n_word'], cfg['n_frac']
    if p == 'extprec':
        x = F.Fxp(None, s, n, f)
        a = bool(x.status['extended_prec'])
        x.set_val(inp['c'], raw=True)
        b = bool(x.status['extended_prec'])
        x.reset()
        c = bool(x.get_status()['extended_prec'])
        y = F.Fxp(None, s, 16, 4)
        y.resize(n_word=n, n_frac=f)
        d = bool(y.status['extended_prec'])
        z = F.Fxp(None, s, 100, 4)
        z.resize(n_word=n)
        e = bool(z.status['extended_prec'])
        w2 = F.Fxp(None, True, 20, 2).like(x)
        k1 = F.Fxp(None, like=x)
        k2 = F.Fxp(inp['c'], like=x, raw=True)
        arr = F.Fxp([0, 0], s, n, f)
        el = arr[1]
        tp = F.Fxp(0, template=x)
        dc = x.deepcopy()
        ep = lambda o: bool(o.status['extended_prec'])
        return dict(ctor=a, after_write=b, after_reset=c, resized_up=d, resized_down=e, like_self=ep(w2), like_kw=ep(k1), like_kw_raw=ep(k2),
                    element=ep(el), from_template=ep(tp), deepcopy=ep(dc), like_kw_raw_code=O.snap(k2.val), val_dtype=O.snap(x.val).dtype)
    kw = dict(rounding=cfg['rounding'], overflow=cfg['overflow'])
    raw = cfg['mode'] == 'raw'
    k = _k(cfg)
    vals = [inp['v%d' % i] for i in range(k)]
    v = vals[0] if k == 1 else list(vals)
    ent = cfg['entry']
    if ent == 'ctor':
        x = F.Fxp(v, s, n, f, raw=raw, **kw)
    elif ent == 'call':
        x = F.Fxp(None, s, n, f, **kw)
        if raw:
            x.set_val(v, raw=True)            # __call__ has no raw argument: the raw route of this entry is set_val
        else:
            x(v)
    elif ent == 'set_val':
        x = F.Fxp(None, s, n, f, **kw)
        x.set_val(v, raw=raw)
    else:
        x = F.Fxp([0, 0], s, n, f, **kw)
        if raw:
            x.set_val(v, raw=True, index=1)
        else:
            x[1] = v
    return dict(val=O.snap(x.val), status={k_: bool(v_) for k_, v_ in x.status.items()}, fmt=C.fmt_of(x))


def post(cfg, inp, ob):
    p = cfg['part']
    if p == 'strings':
        return P11.post(cfg['c11'], inp, ob)
    if p == 'bitwise':
        return P13.post(cfg['c13'], inp, ob)
    s, n, f = cfg['signed'], cfg['n_word'], cfg['n_frac']
    if p == 'extprec':
        want = n >= 64
        return [('extended_prec_iff_n_word_ge_64:' + k_, ob[k_] == want) for k_ in ('ctor', 'after_write', 'after_reset', 'resized_up', 'resized_down', 'like_self', 'like_kw', 'like_kw_raw', 'element', 'from_template', 'deepcopy')] + \
               [('like_kw_raw_code', T.icmp(O.cells(ob['like_kw_raw_code'])[0], inp['c'], '=='))] + \
               [('val_dtype', ob['val_dtype'] == ('object' if want else ('int64' if s else 'uint64')))]
    o = cfg['overflow']
    k = _k(cfg)
    vals = [inp['v%d' % i] for i in range(k)]
    codes = O.cells(ob['val'])
    out = [('format_kept', ob['fmt'] == [s, n, f]), ('val_dtype_object', ob['val'].dtype == 'object'), ('extended_prec', ob['status']['extended_prec'] is True)]
    if cfg['entry'] == 'setitem':
        out.append(('untouched_cell_zero', T.icmp(codes[0], 0, '==')))
        codes = codes[1:]
    out.append(('n_cells', len(codes) == k))
    lo, hi = SP.limits(s, n)
    ovf, unf = [], []
    for i, (c, v) in enumerate(zip(codes, vals)):
        r = v if cfg['mode'] == 'raw' else T.ishl(v, f)
        want = SP.OVERFLOW(r, s, n, o)
        out.append(('code_%d' % i, T.icmp(c, want, '==')))
        out.append(('stored_bit_exactly_when_in_range_%d' % i, SP.IMPLIES(SP.AND(T.icmp(r, lo, '>='), T.icmp(r, hi, '<=')), T.icmp(c, r, '=='))))
        ovf.append(T.icmp(r, hi, '>'))
        unf.append(T.icmp(r, lo, '<'))
    st = ob['status']
    out.append(('overflow_flag_exact', SP.IFF(st['overflow'], SP.OR(*ovf))))
    out.append(('underflow_flag_exact', SP.IFF(st['underflow'], SP.OR(*unf))))
    return out


CANARIES = [
    dict(name='object-dtype wrap re-signs from bit n_word instead of n_word-1',
         mutate={'utils.py': [('        x = np.where(x < (1 << (n_word-1)), x, x | (-m))', '        x = np.where(x < (1 << (n_word)), x, x | (-m))')]},
         cfgs=[dict(part='store', signed=True, n_word=64, n_frac=0, overflow='wrap', rounding='trunc', mode='raw', entry='set_val', shape=[])]),
    dict(name='extended_prec threshold off by one',
         mutate={'objects.py': [('        if self.n_word >= _n_word_max:\n            self.status[\'extended_prec\'] = True', '        if self.n_word > _n_word_max:\n            self.status[\'extended_prec\'] = True')]},
         cfgs=[dict(part='extprec', signed=True, n_word=64, n_frac=0)]),
]
