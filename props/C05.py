"""C05 -- rounding contracts (direction, error bound, ties-to-even), idempotence, monotonicity.
The postconditions do NOT use the reference quantiser of sx/spec.py: they are stated directly as
inequalities between the stored code q and the scaled input r = v * 2^n_frac on the guard-bit integers."""
import random
from sx import spec as SP, obs as O, term as T
from . import common as C

ID = 'C05'
ENCODED = ['Fxp.__init__', 'Fxp.resize', 'Fxp.set_val', 'Fxp._format_inupt_val', 'Fxp._round', 'Fxp._overflow_action', 'utils.clip',
           'utils.wrap', 'Fxp.astype', 'Fxp.get_val']
ASSUMPTIONS = [
    'float inputs are dyadic rationals on the grid 2^-(n_frac+G) (superset of the doubles on that grid); G=64 quick, up to 1074-n_frac thorough',
    '"does not overflow" is assumed as min_code <= v*2^n_frac <= max_code (stated on the input, not on the implementation)',
    'monotonicity and idempotence use two / one extra symbolic values in the same path',
]


def _cfg(part, s, n, f, r, o, carrier='pyfloat', G=64):
    return dict(part=part, signed=s, n_word=n, n_frac=f, rounding=r, overflow=o, carrier=carrier, G=G)


def configs(tier, seed):
    rng = random.Random(seed)
    fm = C.formats_q() if tier == 'quick' else C.formats_core()
    if tier == 'quick':
        fm = fm + [f for f in C.pick(C.formats_core(), 24, rng) if f not in fm]
    out = []
    for (s, n, f) in fm:
        for (r, o) in C.modes():
            G = 64
            if tier == 'thorough' and (n % 8 == 0 or n in C.NW_Q):
                G = max(64, 1074 - f)
            if tier == 'thorough' or (o == 'saturate') == ((n + f) % 2 == 0):      # contracts assume no overflow: alternate the mode in quick
                out.append(_cfg('contract', s, n, f, r, o, 'pyfloat', G))
                out.append(_cfg('contract', s, n, f, r, o, 'pyint'))
            if o == 'saturate' and (tier == 'thorough' or rng.random() < 0.25):
                c = _cfg('contract', s, n, f, r, o, 'pyfloat', 16)
                c['wrap'] = rng.choice(('list', 'tuple', 'ndarray', 'float32'))
                out.append(c)
            if tier == 'thorough' or rng.random() < 0.5:
                out.append(_cfg('idem', s, n, f, r, o))
            if o == 'saturate' and (tier == 'thorough' or rng.random() < 0.3):
                out.append(_cfg('mono', s, n, f, r, o, 'pyfloat', 16 if tier == 'quick' else 64))
    return out


def cost(cfg):
    return {'mono': 10, 'idem': 3}.get(cfg['part'], 1)


def _vspec(cfg, name):
    f, G = cfg['n_frac'], cfg['G']
    if cfg['carrier'] == 'pyint':
        b = min(53, 62 - f)
        m = (1 << b) - 1 if b > 0 else 0
        return dict(kind='int', lo=-m, hi=m)
    exp = max(-(f + G), -1074)
    b = min(53, 62 - f) - exp
    m = (1 << max(b, 0)) - 1
    return dict(kind='float', lo=-m, hi=m, exp=exp)


def inputs(cfg):
    if cfg['part'] == 'contract':
        sp = _vspec(cfg, 'v')
        if cfg.get('wrap') == 'float32':
            sp = dict(sp, sig=24, lo=max(sp['lo'], -(1 << 40)), hi=min(sp['hi'], 1 << 40))
        return {'v': sp}
    if cfg['part'] == 'mono':
        return {'v1': _vspec(cfg, 'v1'), 'v2': _vspec(cfg, 'v2')}
    lo, hi = SP.limits(cfg['signed'], cfg['n_word'])
    return {'c': dict(kind='int', lo=lo, hi=hi)}


def assume(cfg, inp):
    if cfg['part'] == 'mono':
        return SP.dy_cmp(SP.dy(inp['v1']), SP.dy(inp['v2']), '<=')
    return True


def _mk(F, cfg):
    return F.Fxp(None, cfg['signed'], cfg['n_word'], cfg['n_frac'], rounding=cfg['rounding'], overflow=cfg['overflow'])


def _st(x):
    return {k: bool(x.status[k]) for k in ('overflow', 'underflow', 'inaccuracy')}


def run(F, cfg, inp):
    f = cfg['n_frac']
    if cfg['part'] == 'contract':
        x = _mk(F, cfg)
        v = inp['v']
        w = cfg.get('wrap')
        if w == 'list':
            v = [v]                     # the same value inside a container (the object may keep state from its construction)
        elif w == 'tuple':
            v = (v,)
        elif w == 'ndarray':
            v = C.mk_array(F, 'float64' if cfg['carrier'] == 'pyfloat' else 'int64', [v])
        elif w == 'float32':
            v = C.mk_scalar(F, 'float32', v)
        x.set_val(v)
        return dict(q=O.snap(x.val), value=O.snap(x.get_val()), status=_st(x))
    if cfg['part'] == 'mono':
        x1, x2 = _mk(F, cfg), _mk(F, cfg)
        x1.set_val(inp['v1'])
        x2.set_val(inp['v2'])
        return dict(q1=O.snap(x1.val), q2=O.snap(x2.val))
    # idempotence: the representable value c * 2^-n_frac, supplied as float and (when integral) as int
    c = inp['c']
    if F.symbolic:
        vf = T.mkf(c, -f) if isinstance(c, T.SInt) else float(c) * 2.0 ** -f
        vi = T.ishl(c, -f) if f <= 0 else None
    else:
        vf = float(c) * 2.0 ** -f
        vi = c * 2 ** -f if f <= 0 else None
    x = _mk(F, cfg)
    x.set_val(vf)
    ob = dict(qf=O.snap(x.val), stf=_st(x))
    if vi is not None:
        y = _mk(F, cfg)
        y.set_val(vi)
        ob.update(qi=O.snap(y.val), sti=_st(y))
    # re-storing an object's own value (as a number and as an object) is a no-op
    z = _mk(F, cfg)
    z.set_val(c, raw=True)
    z.reset()
    z.set_val(z.get_val())
    ob.update(qz=O.snap(z.val), stz=_st(z))
    w = _mk(F, cfg)
    w.set_val(c, raw=True)
    w.reset()
    w.set_val(w)
    ob.update(qw=O.snap(w.val), stw=_st(w))
    # the same value stored in a new object built next to a reference that overflowed and was inexact in its own past
    ref = _mk(F, cfg)
    ref.status['overflow'] = ref.status['underflow'] = ref.status['inaccuracy'] = True
    u = F.Fxp(vf, like=ref)
    ob.update(qu=O.snap(u.val), stu=_st(u))
    return ob


def _noflags(st):
    return not (st['overflow'] or st['underflow'] or st['inaccuracy'])


def post(cfg, inp, ob):
    s, n, f, r = cfg['signed'], cfg['n_word'], cfg['n_frac'], cfg['rounding']
    lo, hi = SP.limits(s, n)
    if cfg['part'] == 'contract':
        q = O.cells(ob['q'])[0]
        num, e = SP.scaled(inp['v'], f)           # r = num * 2^e
        g = max(0, -e)
        N = num if e <= 0 else T.ishl(num, e)     # r on the grid 2^-g
        one = 1 << g
        Q = T.ishl(q, g)                          # q on the same grid
        inrange = SP.AND(T.icmp(N, lo * one, '>='), T.icmp(N, hi * one, '<='))
        d = T.isub(Q, N)
        ad = T.iabs(d)
        out = []
        if r == 'floor':
            out.append(('floor', SP.IMPLIES(inrange, SP.AND(T.icmp(Q, N, '<='), T.icmp(N, T.iadd(Q, one), '<')))))
        elif r == 'ceil':
            out.append(('ceil', SP.IMPLIES(inrange, SP.AND(T.icmp(T.isub(Q, one), N, '<'), T.icmp(N, Q, '<=')))))
        elif r in ('trunc', 'fix'):
            aq, an = T.iabs(Q), T.iabs(N)
            out.append((r, SP.IMPLIES(inrange, SP.AND(T.icmp(aq, an, '<='), T.icmp(an, T.iadd(aq, one), '<'),
                                                       SP.IMPLIES(T.icmp(N, 0, '>='), T.icmp(q, 0, '>=')),
                                                       SP.IMPLIES(T.icmp(N, 0, '<='), T.icmp(q, 0, '<='))))))
        else:
            twice = T.imul(ad, 2)
            out.append(('around_half_lsb', SP.IMPLIES(inrange, T.icmp(twice, one, '<='))))
            out.append(('around_tie_even', SP.IMPLIES(SP.AND(inrange, T.icmp(twice, one, '==')), T.icmp(T.imod_pow2(q, 1), 0, '=='))))
        out.append(('error_below_one_lsb', SP.IMPLIES(inrange, T.icmp(ad, one, '<'))))
        out.append(('in_range', SP.IMPLIES(inrange, SP.AND(T.icmp(q, lo, '>='), T.icmp(q, hi, '<=')))))
        out.append(('no_overflow_flag', SP.IMPLIES(inrange, not (ob['status']['overflow'] or ob['status']['underflow']))))
        out.append(('readback', SP.dy_eq(SP.dy(O.cells(ob['value'])[0]), (q, -f))))
        return out
    if cfg['part'] == 'mono':
        return [('monotone', T.icmp(O.cells(ob['q1'])[0], O.cells(ob['q2'])[0], '<='))]
    c = inp['c']
    out = [('idem_float_code', T.icmp(O.cells(ob['qf'])[0], c, '==')), ('idem_float_noflag', _noflags(ob['stf']))]
    if 'qi' in ob:
        out += [('idem_int_code', T.icmp(O.cells(ob['qi'])[0], c, '==')), ('idem_int_noflag', _noflags(ob['sti']))]
    out += [('restore_own_value_code', T.icmp(O.cells(ob['qz'])[0], c, '==')), ('restore_own_value_noflag', _noflags(ob['stz'])),
            ('restore_self_code', T.icmp(O.cells(ob['qw'])[0], c, '==')), ('restore_self_noflag', _noflags(ob['stw'])),
            ('like_reference_code', T.icmp(O.cells(ob['qu'])[0], c, '==')), ('like_reference_noflag', _noflags(ob['stu']))]
    return out


CANARIES = [
    dict(name='around implemented as floor(x + 0.5) (ties go up instead of to even)',
         mutate={'objects.py': [('rval = np.around(val)', 'rval = np.floor(val + 0.5)')]},
         cfgs=[_cfg('contract', True, 8, 2, 'around', 'saturate')]),
    dict(name='floor implemented by truncation',
         mutate={'objects.py': [('rval = np.floor(val)', 'rval = np.trunc(val)')]},
         cfgs=[_cfg('contract', True, 8, 2, 'floor', 'saturate')]),
]
