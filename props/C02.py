"""C02 -- every produced object is well-formed: codes inside the format's range, n_int = n_word - n_frac - sign bit, upper / lower /
precision equal to max code * 2^-n_frac, min code * 2^-n_frac, 2^-n_frac, dtype string spelling exactly that format; under saturate an
out-of-range input of any magnitude is stored as the bound on its own side.

One inductive step per public operation from an arbitrary well-formed pre-state (symbolic in-range codes), so histories of any length
are covered as long as WF is the invariant each step re-establishes."""
import random
from fractions import Fraction
from sx import spec as SP, obs as O, term as T
from . import common as C

ID = 'C02'
HANDLES_EXC = False
ENCODED = ['Fxp.__init__', 'Fxp._init_size', 'Fxp.resize', 'Fxp.set_val', 'Fxp._update_dtype', 'Fxp.like', 'Fxp.equal', 'Fxp.__getitem__',
           'Fxp.__setitem__', 'Fxp.__call__', 'functions._function_over_one_var', 'functions._function_over_two_vars', 'functions._get_sizing',
           'functions.add', 'functions.sub', 'functions.mul', 'functions.truediv', 'functions.floordiv', 'functions.mod', 'Fxp.__neg__',
           'Fxp.__abs__', 'Fxp.__lshift__', 'Fxp.__rshift__', 'Fxp.__invert__', 'Fxp.__and__', 'Fxp.__or__', 'Fxp.__xor__', 'Fxp.deepcopy',
           'Fxp.copy', 'functions.sum', 'functions.cumsum', 'functions.fxp_max', 'functions.fxp_min', 'functions.clip', 'functions.transpose',
           'Fxp._convert_op_input_value', 'utils.clip', 'utils.wrap']
ASSUMPTIONS = [
    'pre-state: operands are objects of small formats (n_word <= 12; stores also on the quick format grid up to 52 bits) holding arbitrary '
    'in-range codes, built through the public API (raw=True) -- the step is run from every such state, so sequences of any length follow by induction',
    'WF(result): every code cell within the range of the format the result reports; n_int == n_word - n_frac - signed; upper, lower, precision '
    'equal max code * 2^-n_frac, min code * 2^-n_frac, 2^-n_frac as exact rationals; dtype string == fxp-<s|u><n_word>/<n_frac>',
    'saturation rows: floats m*2^E (|m| < 2^53, E up to 970) and Python ints |v| < 2^1000 into formats with n_frac >= 0',
    'divisor codes are non-zero (C09 excludes zero divisors; with operands of different signedness NumPy divides in float64 and yields NaN)',
    'the random-program quantifier of the property is replaced by the inductive step; programs are not enumerated',
]
SIZINGS = ('optimal', 'same', 'largest', 'smallest')
BINOPS = {'add': lambda a, b: a + b, 'sub': lambda a, b: a - b, 'mul': lambda a, b: a * b, 'truediv': lambda a, b: a / b,
          'floordiv': lambda a, b: a // b, 'mod': lambda a, b: a % b}
BITOPS = {'and': lambda a, b: a & b, 'or': lambda a, b: a | b, 'xor': lambda a, b: a ^ b}
BIG_EXPS = (0, 9, 12, 40, 62, 63, 64, 65, 100, 511, 970)


def _small(maxw=12):
    return [(s, n, f) for s in (True, False) for n in (1, 2, 3, 4, 5, 8, 12) if n <= maxw for f in sorted(set([-1, 0, n // 2, n, n + 1]))]


def configs(tier, seed):
    rng = random.Random(seed)
    sm = _small()
    out = []
    N = (lambda q, t: q if tier == 'quick' else t)
    # binary arithmetic with every sizing policy, Fxp and constant operands
    for _ in range(N(220, 12000)):
        sizing = rng.choice(SIZINGS)
        # imposed sizings are defined for formats with a non-negative integer length (C08's domain): 'smallest' of a format with
        # n_frac > n_word and one with n_frac < 0 has no bits at all and is rejected with a ValueError, which is not a produced object
        pool = sm if sizing == 'optimal' else [q for q in sm if 0 <= q[2] <= q[1] - int(q[0])]
        x, y = rng.choice(pool), rng.choice(pool)
        r, o = rng.choice(C.modes())
        out.append(dict(part='binop', op=rng.choice(list(BINOPS)), x=list(x), y=list(y), sizing=sizing, rounding=r, overflow=o,
                        shape=rng.choice(([], [], [2]))))
    for _ in range(N(60, 2000)):
        x = rng.choice([f for f in sm if f[1] <= 8])
        r, o = rng.choice(C.modes())
        out.append(dict(part='constop', op=rng.choice(('add', 'sub', 'mul')), x=list(x), sizing=rng.choice(('same', 'optimal', 'largest')),
                        kind=rng.choice(('int', 'float')), side=rng.choice(('left', 'right')), rounding=r, overflow=o))
    # unary, shifts, bitwise, indexing, copies
    for x in C.pick(sm, N(24, len(sm)), rng):
        for u in ('neg', 'abs', 'pos', 'invert', 'deepcopy', 'copy', 'index', 'like_self'):
            out.append(dict(part='unary', op=u, x=list(x), shape=([2] if u == 'index' else [])))
    for _ in range(N(60, 3000)):
        x = rng.choice([f for f in sm if 0 <= f[2] <= f[1]])
        out.append(dict(part='shift', dir=rng.choice(('l', 'r')), mode=rng.choice(('expand', 'trunc', 'keep')), x=list(x), n=rng.randrange(0, x[1] + 4)))
    for _ in range(N(30, 1500)):
        x = rng.choice(sm)
        out.append(dict(part='bitop', op=rng.choice(list(BITOPS)), x=list(x), y=[rng.choice((True, False)), x[1], rng.choice((0, x[1]))]))
    # conversions
    for _ in range(N(80, 4000)):
        x, y = rng.choice(sm), rng.choice(sm)
        if rng.random() < 0.4:
            s0, n0, f0 = x
            k = rng.choice((1, 2, 4))
            y = rng.choice([(not s0, n0 + k, f0), (not s0, n0, f0), (s0, n0 + k, f0), (s0, max(1, n0 - k), f0), (s0, n0, f0 + k), (not s0, max(1, n0 - k), f0)])
        r, o = rng.choice(C.modes())
        out.append(dict(part='convert', route=rng.choice(('resize', 'resize', 'resize_partial', 'resize_dtype', 'like', 'like_kw', 'from_fxp', 'set_val_fxp', 'equal', 'setitem_fxp')),
                        x=list(x), y=list(y), rounding=r, overflow=o))
    # resize to a format that differs in one or two size fields only, all such neighbours of a few sources (both resize spellings)
    for x in C.pick([q for q in sm if q[1] >= 2], N(6, 40), rng):
        s0, n0, f0 = x
        for y in ((not s0, n0 + 2, f0), (not s0, n0, f0), (s0, n0 + 3, f0), (s0, n0 - 1, f0), (s0, n0, f0 + 1), (not s0, n0 - 1, f0), (not s0, n0 + 1, f0 + 1)):
            r, o = rng.choice(C.modes())
            out.append(dict(part='convert', route=rng.choice(('resize', 'resize_partial')), x=list(x), y=list(y), rounding=r, overflow=o))
    # rarely used size-argument combinations of resize / the constructor (n_int alone, n_int with like=, all three lengths, dtype with n_int)
    for x in C.pick([q for q in sm if q[1] >= 3 and 0 <= q[2] <= q[1]], N(5, 30), rng):
        for combo in ('resize_nint', 'resize_nint_word', 'resize_nint_frac', 'resize_signed', 'resize_all_four', 'like_nint', 'like_signed', 'like_signed_nint_frac', 'resize_signed_nint_frac', 'template_signed_nint_frac', 'ctor_all_four',
                      'ctor_dtype_nint', 'ctor_nint_word', 'ctor_nint_frac'):
            out.append(dict(part='argcombo', combo=combo, x=list(x), k=rng.choice((0, 1, 2, 5))))
    # reductions and element-wise NumPy functions (both call routes)
    for _ in range(N(60, 600)):
        x = rng.choice([f for f in sm if f[1] <= 8])
        out.append(dict(part='reduce', fn=rng.choice(('sum', 'cumsum', 'max', 'min', 'clip', 'transpose')), route=rng.choice(('numpy', 'method')),
                        x=list(x), shape=rng.choice(([3], [2, 2]))))
    # stores (value mode) on the quick format grid, all modes
    fq = C.formats_q()
    for (s, n, f) in C.pick(fq, N(40, len(fq)), rng):
        r, o = rng.choice(C.modes())
        out.append(dict(part='store', signed=s, n_word=n, n_frac=f, rounding=r, overflow=o, carrier=rng.choice(('float', 'int')),
                        entry=rng.choice(('ctor', 'call', 'set_val', 'setitem'))))
    # saturation side: any magnitude
    for (s, n, f) in C.pick([q for q in fq if q[2] >= 0], N(30, 200), rng):
        for E in C.pick(BIG_EXPS, N(2, len(BIG_EXPS)), rng):
            out.append(dict(part='satfloat', signed=s, n_word=n, n_frac=f, rounding=rng.choice(SP.ROUNDINGS), E=E, entry=rng.choice(('ctor', 'set_val', 'call'))))
        out.append(dict(part='satint', signed=s, n_word=n, n_frac=f, rounding=rng.choice(SP.ROUNDINGS), entry=rng.choice(('ctor', 'set_val', 'call', 'setitem'))))
    return out


def cost(cfg):
    p = cfg['part']
    if p in ('satint',):
        return 30
    if p == 'constop':
        return 10
    if p == 'reduce':
        return 8
    return 2 if cfg.get('shape') else 1


def _k(shape):
    return C.size_of(shape) if shape else 1


def inputs(cfg):
    p = cfg['part']
    sp = {}
    if p in ('binop', 'constop', 'unary', 'shift', 'bitop', 'convert', 'reduce', 'argcombo'):
        lo, hi = SP.limits(cfg['x'][0], cfg['x'][1])
        for i in range(_k(cfg.get('shape') or [])):
            sp['a%d' % i] = dict(kind='int', lo=lo, hi=hi)
    if p in ('binop', 'bitop', 'convert'):
        lo2, hi2 = SP.limits(cfg['y'][0], cfg['y'][1])
        sp['b0'] = dict(kind='int', lo=lo2, hi=hi2)
    if p == 'constop':
        if cfg['kind'] == 'int':
            sp['m'] = dict(kind='int', lo=-255, hi=255)
        else:
            sp['m'] = dict(kind='float', lo=-255, hi=255, exp=-2)
    if p == 'reduce' and cfg['fn'] == 'clip':
        lo, hi = SP.limits(cfg['x'][0], cfg['x'][1])
        sp['lo'] = dict(kind='int', lo=lo, hi=hi)
        sp['hi'] = dict(kind='int', lo=lo, hi=hi)
    if p == 'store':
        f = cfg['n_frac']
        if cfg['carrier'] == 'int':
            b = min(53, 62 - f)
            m = (1 << b) - 1 if b > 0 else 0
            sp['v'] = dict(kind='int', lo=-m, hi=m)
        else:
            G = 16
            b = min(53, 62 - f) + f + G
            m = (1 << max(b, 0)) - 1
            sp['v'] = dict(kind='float', lo=-m, hi=m, exp=-(f + G))
    if p == 'satfloat':
        m = (1 << 53) - 1
        sp['v'] = dict(kind='float', lo=-m, hi=m, exp=cfg['E'])
    if p == 'satint':
        m = (1 << 1000) - 1
        sp['v'] = dict(kind='int', lo=-m, hi=m)
    return sp


def assume(cfg, inp):
    if cfg['part'] == 'binop' and cfg['op'] in ('truediv', 'floordiv', 'mod'):
        return T.icmp(inp['b0'], 0, '!=')          # (operands of different signedness divide in float64: a zero divisor gives NaN)
    return True


def wf(x):
    """snapshot of everything WF talks about"""
    return dict(val=O.snap(x.val), fmt=C.fmt_of(x), n_int=C.cint(x.n_int), upper=x.upper, lower=x.lower, precision=x.precision, dtype=x.dtype,
                complex=(x.vdtype == complex))


def _mk(F, fmt, codes, shape, **kw):
    return C.raw_fxp(F, fmt[0], fmt[1], fmt[2], codes if shape else codes[0], tuple(shape) if shape else None, **kw)


def run(F, cfg, inp):
    p = cfg['part']
    res = {}
    if p in ('store', 'satfloat', 'satint'):
        s, n, f = cfg['signed'], cfg['n_word'], cfg['n_frac']
        kw = dict(rounding=cfg['rounding'], overflow=cfg.get('overflow', 'saturate'))
        v = inp['v']
        e = cfg['entry']
        if e == 'ctor':
            x = F.Fxp(v, s, n, f, **kw)
        elif e == 'call':
            x = F.Fxp(None, s, n, f, **kw)
            x(v)
        elif e == 'set_val':
            x = F.Fxp(None, s, n, f, **kw)
            x.set_val(v)
        else:
            x = F.Fxp([0, 0], s, n, f, **kw)
            x[1] = v
        return dict(r0=wf(x))
    shape = cfg.get('shape') or []
    a = [inp['a%d' % i] for i in range(_k(shape))]
    if p == 'binop':
        x = _mk(F, cfg['x'], a, shape, op_sizing=cfg['sizing'])
        x.config.rounding, x.config.overflow = cfg['rounding'], cfg['overflow']
        y = _mk(F, cfg['y'], [inp['b0']], [])
        z = BINOPS[cfg['op']](x, y)
        return dict(r0=wf(z), x=wf(x), y=wf(y))
    if p == 'constop':
        x = _mk(F, cfg['x'], a, [], const_op_sizing=cfg['sizing'], op_input_size='same')
        x.config.rounding, x.config.overflow = cfg['rounding'], cfg['overflow']
        m = inp['m']
        z = BINOPS[cfg['op']](x, m) if cfg['side'] == 'right' else BINOPS[cfg['op']](m, x)
        return dict(r0=wf(z), x=wf(x))
    if p == 'unary':
        x = _mk(F, cfg['x'], a, shape)
        u = cfg['op']
        if u == 'neg':
            z = -x
        elif u == 'abs':
            z = abs(x)
        elif u == 'pos':
            z = +x
        elif u == 'invert':
            z = ~x
        elif u == 'deepcopy':
            z = x.deepcopy()
        elif u == 'copy':
            z = x.copy()
        elif u == 'like_self':
            z = x.like(x)
        else:
            z = x[1]
        return dict(r0=wf(z), x=wf(x))
    if p == 'shift':
        x = _mk(F, cfg['x'], a, [], shifting=cfg['mode'])
        z = (x << cfg['n']) if cfg['dir'] == 'l' else (x >> cfg['n'])
        return dict(r0=wf(z), x=wf(x))
    if p == 'bitop':
        x = _mk(F, cfg['x'], a, [])
        y = _mk(F, cfg['y'], [inp['b0']], [])
        return dict(r0=wf(BITOPS[cfg['op']](x, y)), x=wf(x))
    if p == 'convert':
        src = _mk(F, cfg['x'], a, [])
        ds, dn, df = cfg['y']
        kw = dict(rounding=cfg['rounding'], overflow=cfg['overflow'])
        r = cfg['route']
        if r == 'resize':
            d = src.deepcopy()
            d.config.rounding, d.config.overflow = cfg['rounding'], cfg['overflow']
            d.resize(ds, dn, df)
        elif r == 'resize_partial':
            d = src.deepcopy()
            d.config.rounding, d.config.overflow = cfg['rounding'], cfg['overflow']
            d.resize(**{k_: v_ for k_, v_, old in (('signed', ds, cfg['x'][0]), ('n_word', dn, cfg['x'][1]), ('n_frac', df, cfg['x'][2])) if v_ != old})
        elif r == 'resize_dtype':
            d = src.deepcopy()
            d.config.rounding, d.config.overflow = cfg['rounding'], cfg['overflow']
            d.resize(dtype=C.fmt_str(ds, dn, df))
        elif r == 'like':
            d = src.like(_mk(F, cfg['y'], [inp['b0']], [], **kw))
        elif r == 'like_kw':
            d = F.Fxp(src, like=_mk(F, cfg['y'], [inp['b0']], [], **kw))
        elif r == 'from_fxp':
            d = F.Fxp(src, ds, dn, df, **kw)
        elif r == 'set_val_fxp':
            d = _mk(F, cfg['y'], [inp['b0']], [], **kw)
            d.set_val(src)
        elif r == 'equal':
            d = _mk(F, cfg['y'], [inp['b0']], [], **kw)
            d.equal(src)
        else:
            d = F.Fxp([0, 0], ds, dn, df, **kw)
            d[0] = src
        return dict(r0=wf(d), x=wf(src))
    if p == 'argcombo':
        s0, n0, f0 = cfg['x']
        k = cfg['k']
        x = _mk(F, cfg['x'], a, [])
        c = cfg['combo']
        if c == 'resize_nint':
            x.resize(n_int=k)
            d = x
        elif c == 'resize_nint_word':
            x.resize(n_word=n0 + 2, n_int=k)
            d = x
        elif c == 'resize_nint_frac':
            x.resize(n_frac=f0 + 1, n_int=k)
            d = x
        elif c == 'resize_signed':
            x.resize(signed=not s0)
            d = x
        elif c == 'resize_all_four':
            x.resize(signed=s0, n_word=n0 + 1, n_frac=f0, n_int=k)
            d = x
        elif c == 'like_nint':
            d = F.Fxp(x, like=x, n_int=k)
        elif c == 'like_signed':
            d = F.Fxp(x, like=x, signed=not s0)
        elif c == 'like_signed_nint_frac':
            d = F.Fxp(x, like=x, signed=not s0, n_int=k + 1, n_frac=f0)
        elif c == 'resize_signed_nint_frac':
            x.resize(signed=not s0, n_int=k + 1, n_frac=f0)
            d = x
        elif c == 'template_signed_nint_frac':
            d = F.Fxp(x(), signed=not s0, n_int=k + 1, n_frac=f0, template=x)
        elif c == 'ctor_all_four':
            d = F.Fxp(x(), s0, n0, f0, n_int=k)
        elif c == 'ctor_dtype_nint':
            d = F.Fxp(x(), dtype=C.fmt_str(s0, n0, f0), n_int=k)
        elif c == 'ctor_nint_word':
            d = F.Fxp(x(), s0, n_word=n0, n_int=min(k, n0 - int(s0)))
        else:
            d = F.Fxp(x(), s0, n_frac=f0, n_int=k)
        # and the derived object is used once more: results of arithmetic on it must be well-formed too
        return dict(r0=wf(d), r1=wf(d + d), r2=wf(d.like(d)))
    if p == 'reduce':
        x = _mk(F, cfg['x'], a, shape)
        fn = cfg['fn']
        if fn == 'clip':
            lo = C.value_of(F, inp['lo'], cfg['x'][2])        # plain numbers (the values of two in-range codes)
            hi = C.value_of(F, inp['hi'], cfg['x'][2])
            z = F.np.clip(x, lo, hi) if cfg['route'] == 'numpy' else x.clip(lo, hi)
        elif cfg['route'] == 'numpy':
            z = getattr(F.np, fn)(x)
        else:
            z = getattr(x, fn)()
        return dict(r0=wf(z), x=wf(x))
    raise ValueError(p)


def _dy_is(x, num, exp):
    """concrete float / Fraction x == num * 2^exp exactly"""
    return Fraction(x) == Fraction(num) * Fraction(2) ** exp


def wf_obligations(tag, w):
    s, n, f = w['fmt']
    lo, hi = SP.limits(s, n)
    out = [(tag + ':n_int', w['n_int'] == n - f - int(s)),
           (tag + ':dtype_string', w['dtype'] == C.fmt_str(s, n, f) + ('-complex' if w['complex'] else ''))]
    cells = O.cells(w['val'])
    out.append((tag + ':codes_in_range', SP.AND(*[SP.AND(T.icmp(c, lo, '>='), T.icmp(c, hi, '<=')) for c in cells]) if cells else True))
    if not w['complex']:
        if n <= 53:
            out.append((tag + ':upper', _dy_is(w['upper'], hi, -f)))
            out.append((tag + ':lower', _dy_is(w['lower'], lo, -f)))
        out.append((tag + ':precision', _dy_is(w['precision'], 1, -f)))
    return out


def post(cfg, inp, ob):
    out = []
    for k, w in ob.items():
        out += wf_obligations(k, w)
    p = cfg['part']
    if p == 'argcombo' and cfg['combo'] in ('like_signed_nint_frac', 'resize_signed_nint_frac', 'template_signed_nint_frac'):
        # sign, integer length and fraction length given together: the word follows arithmetically, with the *new* sign bit
        s0, n0, f0 = cfg['x']
        s1, ni = (not s0), cfg['k'] + 1
        out.append(('requested_sizes_honoured', ob['r0']['fmt'] == [s1, ni + f0 + int(s1), f0] and ob['r0']['n_int'] == ni))
    if p in ('satfloat', 'satint'):
        s, n, f = cfg['signed'], cfg['n_word'], cfg['n_frac']
        lo, hi = SP.limits(s, n)
        code = O.cells(ob['r0']['val'])[-1]
        r = SP.ROUND(SP.scaled(inp['v'], f), cfg['rounding'])
        out.append(('above_range_stored_as_upper_bound', SP.IMPLIES(T.icmp(r, hi, '>'), T.icmp(code, hi, '=='))))
        out.append(('below_range_stored_as_lower_bound', SP.IMPLIES(T.icmp(r, lo, '<'), T.icmp(code, lo, '=='))))
    return out


CANARIES = [
    dict(name='n_int recomputed without the sign bit in resize',
         mutate={'objects.py': [('        self.n_int = self.n_word - self.n_frac - (1 if self.signed else 0)\n\n        # status extended precision',
                                 '        self.n_int = self.n_word - self.n_frac\n\n        # status extended precision')]},
         cfgs=[dict(part='convert', route='resize', x=[True, 8, 2], y=[True, 5, 1], rounding='trunc', overflow='saturate')]),
    dict(name='right shift in trunc mode applied to the unsigned image of the code',
         mutate={'objects.py': [('            y.val = y.val >> np.array(n, dtype=y.val.dtype)', '            y.val = (y.val % (1 << (y.n_word + 1))) >> np.array(n, dtype=y.val.dtype)')]},
         cfgs=[dict(part='shift', dir='r', mode='trunc', x=[True, 5, 2], n=0)]),
]
