"""C17 -- scale and bias act as an exact affine wrapper around the stored code: storing v stores the C01 quantisation of (v-b)/s,
reading returns s*code*2^-n_frac + b, upper/lower/precision are the unscaled ones mapped through the same affine map, flags as for
(v-b)/s, and size inference sizes the transformed value."""
import random
from fractions import Fraction
from sx import spec as SP, obs as O, term as T
from . import common as C

ID = 'C17'
ENCODED = ['Fxp.__init__', 'Fxp._init_size', 'Fxp.resize', 'Fxp.set_val', 'Fxp._format_inupt_val', 'Fxp.astype', 'Fxp.get_val', 'Fxp._round',
           'Fxp._overflow_action', 'utils.clip', 'utils.wrap', 'Fxp.set_best_sizes', 'Fxp.__call__']
ASSUMPTIONS = [
    'the transformed value t = (v-b)/s is the symbolic input, a dyadic on the grid 2^-(n_frac+G), G=8, over three times the representable range; '
    'the stored number is v := s*t + b, computed exactly (dyadic scale and bias), so that every intermediate of the real code is an exact double',
    'scale in {2, 1/2, 3/4, 5, -1/2, 4 (int), 1 with a bias}, and 49/8, 75/8 on formats of at most 8 bits, bias in {0, 1, -2.5, 10000, 3 (int)}; formats with n_word <= 16',
    'size inference part: t = k/2^f0 with f0 <= 2 and |k| < 2^7 (the fraction search forks once per fractional bit pattern)',
]
SCALES = [2.0, 0.5, 0.75, 5.0, -0.5, 4, 1]
ODD_SCALES = [6.125, 9.375]       # 49/8 and 75/8: their reciprocals are not doubles that survive a multiplication (small formats only: cost)
BIASES = [0, 1.0, -2.5, 10000.0, 3]
G = 8


def _fr(x):
    return Fraction(x)


def configs(tier, seed):
    rng = random.Random(seed)
    fm = [(s, n, f) for s in (True, False) for n in (1, 2, 3, 5, 8, 12, 16) for f in sorted(set([-2, 0, 1, n // 2, n, n + 2]))]
    out = []
    sel = C.pick(fm, 30 if tier == 'quick' else len(fm), rng)
    for (s, n, f) in sel:
        for (r, o) in (C.pick(C.modes(), 3, rng) if tier == 'quick' else C.modes()):
            combos = [(sc, bi) for sc in SCALES for bi in BIASES if not (sc == 1 and bi == 0)]
            for (sc, bi) in C.pick(combos, 4 if tier == 'quick' else 12, rng):
                out.append(dict(part='store', signed=s, n_word=n, n_frac=f, rounding=r, overflow=o, scale=sc, bias=bi,
                                entry=rng.choice(('ctor', 'set_val', 'call'))))
    for (s, n, f) in ([(True, 8, 2), (False, 6, 3), (True, 5, 0)] if tier == 'quick' else [q for q in fm if q[1] <= 8]):
        for (r, o) in C.pick(C.modes(), 3 if tier == 'quick' else 5, rng):
            out.append(dict(part='store', signed=s, n_word=n, n_frac=f, rounding=r, overflow=o, scale=rng.choice(ODD_SCALES), bias=rng.choice((0, 1.0, -2.5)),
                            entry=rng.choice(('ctor', 'set_val', 'call'))))
    # integer carriers (Python int): the transformed value (v-b)/s has fractional bits the integer input does not show
    P2 = [2.0, 0.5, -0.5, 4, 1]
    for (s, n, f) in C.pick([q for q in fm if q[2] >= 1], 16 if tier == 'quick' else 60, rng):
        for (sc, bi) in C.pick([(a, b) for a in P2 for b in BIASES if not (a == 1 and b == 0)], 3 if tier == 'quick' else 10, rng):
            r, o = rng.choice(C.modes())
            out.append(dict(part='store', signed=s, n_word=n, n_frac=f, rounding=r, overflow=o, scale=sc, bias=bi,
                            entry=rng.choice(('ctor', 'set_val', 'call')), carrier='int'))
    for _ in range(10 if tier == 'quick' else 60):
        sc, bi = rng.choice(P2), rng.choice(BIASES)
        if sc == 1 and bi == 0:
            continue
        out.append(dict(part='infer', signed=rng.choice((True, False, None)), scale=sc, bias=bi, f0=0, carrier='int'))
    # objects derived from a scaled array without a store (element view, flatten, transpose) and then re-formatted
    for (s, n, f) in C.pick([q for q in fm if q[1] >= 2 and q[2] >= 0], 10 if tier == 'quick' else 60, rng):
        for how in ('index', 'flatten', 'T', 'like_kw'):
            sc, bi = rng.choice([2.0, 0.5, 4, -0.5]), rng.choice(BIASES)
            out.append(dict(part='derived', how=how, signed=s, n_word=n, n_frac=f, scale=sc, bias=bi))
    for (s, n, f) in C.pick(fm, 12 if tier == 'quick' else len(fm), rng):
        sc, bi = rng.choice([x for x in SCALES if x != 1]), rng.choice(BIASES)
        out.append(dict(part='rawwrite', signed=s, n_word=n, n_frac=f, scale=sc, bias=bi))
    for _ in range(12 if tier == 'quick' else 80):
        sc, bi = rng.choice(SCALES), rng.choice(BIASES)
        if sc == 1 and bi == 0:
            continue
        out.append(dict(part='infer', signed=rng.choice((True, False, None)), scale=sc, bias=bi, f0=rng.choice((0, 1, 2))))
    return out


def cost(cfg):
    return 30 if cfg['part'] == 'infer' else 1


def inputs(cfg):
    if cfg.get('carrier') == 'int':
        # the stored number itself is the symbolic input: a Python int v; t = (v - b) / s is dyadic (power-of-two scale)
        if cfg['part'] == 'infer':
            return {'vi': dict(kind='int', lo=-100, hi=100)}
        lo, hi = SP.limits(cfg['signed'], cfg['n_word'])
        span = 3 * (hi - lo + 1)
        m = int(abs(Fraction(cfg['scale'])) * Fraction(span, 1 << cfg['n_frac'])) + int(abs(Fraction(cfg['bias']))) + 2
        return {'vi': dict(kind='int', lo=-m, hi=m)}
    if cfg['part'] == 'infer':
        lo = -(1 << 7) + 1 if cfg['signed'] is not False else 0
        return {'k': dict(kind='float', lo=lo, hi=(1 << 7) - 1, exp=-cfg['f0'])}
    s, n, f = cfg['signed'], cfg['n_word'], cfg['n_frac']
    lo, hi = SP.limits(s, n)
    if cfg['part'] == 'rawwrite':
        return {'c': dict(kind='int', lo=lo, hi=hi)}
    if cfg['part'] == 'derived':
        return {'c0': dict(kind='int', lo=lo, hi=hi), 'c1': dict(kind='int', lo=lo, hi=hi)}
    span = (hi - lo + 1)
    m = (3 * span) << G
    return {'t': dict(kind='float', lo=-m, hi=m, exp=-(f + G))}


def _t_of_int(cfg, v):
    """exact dyadic (num, exp) of (v - b) / s for an integer v, dyadic b and s = +-2^j"""
    S, B = _fr(cfg['scale']), _fr(cfg['bias'])
    eb = B.denominator.bit_length() - 1
    num = T.isub(T.ishl(v, eb), B.numerator)                 # (v - b) * 2^eb
    sign = 1 if S > 0 else -1
    a = abs(S)
    j = (a.numerator.bit_length() - 1) - (a.denominator.bit_length() - 1)
    assert a == Fraction(2) ** j, 'integer carriers are driven with power-of-two scales only'
    return (num if sign > 0 else T.ineg(num)), -eb - j


def assume(cfg, inp):
    if cfg['part'] == 'infer' and cfg.get('carrier') == 'int' and cfg['signed'] is False:
        num, _ = _t_of_int(cfg, inp['vi'])
        return T.icmp(num, 0, '>=')                  # an unsigned format is inferred for non-negative transformed values only
    return True


def _v_of(F, cfg, t):
    """v = s*t + b, exactly (the same expression on the lifted and on the real side)"""
    sc, bi = cfg['scale'], cfg['bias']
    v = t * float(sc) if sc != 1 else t
    if bi != 0:
        v = v + float(bi)
    return v


def run(F, cfg, inp):
    sc, bi = cfg['scale'], cfg['bias']
    if cfg['part'] == 'infer':
        v = inp['vi'] if cfg.get('carrier') == 'int' else _v_of(F, cfg, inp['k'])
        kw = {} if cfg['signed'] is None else dict(signed=cfg['signed'])
        x = F.Fxp(v, scale=sc, bias=bi, **kw)
        return dict(val=O.snap(x.val), value=O.snap(x.get_val()), fmt=C.fmt_of(x), status={k: bool(v_) for k, v_ in x.status.items()})
    s, n, f = cfg['signed'], cfg['n_word'], cfg['n_frac']
    if cfg['part'] == 'derived':
        x = F.Fxp([0, 0], s, n, f, scale=sc, bias=bi)
        x.set_val(C.mk_array(F, 'int64' if s else 'uint64', [inp['c0'], inp['c1']]), raw=True)
        h = cfg['how']
        d = x[1] if h == 'index' else x.flatten() if h == 'flatten' else x.T if h == 'T' else F.Fxp(x, like=x)
        d.resize(n_word=n + 3, n_frac=f + 1)
        return dict(val=O.snap(d.val), value=O.snap(d.get_val()), fmt=C.fmt_of(d), precision=d.precision, upper=d.upper)
    if cfg['part'] == 'rawwrite':
        # a code written directly (raw=True) is still read through the affine map, and a later resize keeps the mapped limits
        x = F.Fxp(None, s, n, f, scale=sc, bias=bi)
        x.set_val(inp['c'], raw=True)
        ob = dict(val=O.snap(x.val), value=O.snap(x.get_val()))
        x.resize(n_word=n, n_frac=f)
        ob.update(val2=O.snap(x.val), value2=O.snap(x.get_val()), upper=x.upper, lower=x.lower, precision=x.precision)
        return ob
    kw = dict(rounding=cfg['rounding'], overflow=cfg['overflow'], scale=sc, bias=bi)
    v = inp['vi'] if cfg.get('carrier') == 'int' else _v_of(F, cfg, inp['t'])
    if cfg['entry'] == 'ctor':
        x = F.Fxp(v, s, n, f, **kw)
    elif cfg['entry'] == 'call':
        x = F.Fxp(None, s, n, f, **kw)
        x.reset()                 # the constructor itself stores the number 0, i.e. t = -b/s, and may raise (sticky) flags for it
        x(v)
    else:
        x = F.Fxp(None, s, n, f, **kw)
        x.reset()
        x.set_val(v)
    return dict(val=O.snap(x.val), value=O.snap(x.get_val()), fmt=C.fmt_of(x), status={k: bool(v_) for k, v_ in x.status.items()},
                upper=x.upper, lower=x.lower, precision=x.precision)


def _affine(code, f, sc, bi):
    """s * code * 2^-f + b as an exact dyadic (num, exp)"""
    S, B = _fr(sc), _fr(bi)
    es = S.denominator.bit_length() - 1
    eb = B.denominator.bit_length() - 1
    e = -f - es
    num = T.imul(code, S.numerator)                      # value = num * 2^e
    g = min(e, -eb)
    return T.iadd(T.ishl(num, e - g), B.numerator << (-eb - g)), g


def post(cfg, inp, ob):
    sc, bi = cfg['scale'], cfg['bias']
    code = O.cells(ob['val'])[0]
    rd = O.cells(ob['value'])[0]
    if cfg['part'] == 'derived':
        s, n, f = cfg['signed'], cfg['n_word'], cfg['n_frac']
        cs = [inp['c1']] if cfg['how'] == 'index' else [inp['c0'], inp['c1']]
        codes, reads = O.cells(ob['val']), O.cells(ob['value'])
        S, B = _fr(sc), _fr(bi)
        lo2, hi2 = SP.limits(s, n + 3)
        out = [('format', ob['fmt'] == [s, n + 3, f + 1]), ('n_cells', len(codes) == len(cs)),
               ('precision_mapped_through_scale_only', _fr(ob['precision']) == S * Fraction(1, 1 << (f + 1))),
               ('upper_mapped', _fr(ob['upper']) == S * hi2 * Fraction(1, 1 << (f + 1)) + B)]
        for i, (cd, rd_, c) in enumerate(zip(codes, reads, cs)):
            out.append(('code_kept_%d' % i, T.icmp(cd, T.ishl(c, 1), '==')))
            out.append(('read_back_is_affine_image_%d' % i, SP.dy_eq(SP.dy(rd_), _affine(c, f, sc, bi))))
        return out
    if cfg['part'] == 'rawwrite':
        s, n, f = cfg['signed'], cfg['n_word'], cfg['n_frac']
        c = inp['c']
        lo, hi = SP.limits(s, n)
        S, B = _fr(sc), _fr(bi)
        lsb = Fraction(1, 1 << f) if f >= 0 else Fraction(1 << -f)
        return [('raw_code_stored', T.icmp(code, c, '==')),
                ('read_back_is_affine_image', SP.dy_eq(SP.dy(rd), _affine(c, f, sc, bi))),
                ('code_kept_by_resize', T.icmp(O.cells(ob['val2'])[0], c, '==')),
                ('read_back_after_resize', SP.dy_eq(SP.dy(O.cells(ob['value2'])[0]), _affine(c, f, sc, bi))),
                ('upper_mapped', _fr(ob['upper']) == S * hi * lsb + B), ('lower_mapped', _fr(ob['lower']) == S * lo * lsb + B),
                ('precision_mapped_through_scale_only', _fr(ob['precision']) == S * lsb)]
    st = ob['status']
    if cfg['part'] == 'infer':
        t = _t_of_int(cfg, inp['vi']) if cfg.get('carrier') == 'int' else inp['k']
        s, n, f = ob['fmt']
        out = [('no_flag', not (st['overflow'] or st['underflow'] or st['inaccuracy'])),
               ('transformed_value_represented_exactly', SP.dy_eq((code, -f), SP.dy(t))),
               ('read_back_is_affine_image', SP.dy_eq(SP.dy(rd), _affine(code, f, sc, bi)))]
        return out
    s, n, f, r, o = cfg['signed'], cfg['n_word'], cfg['n_frac'], cfg['rounding'], cfg['overflow']
    t = _t_of_int(cfg, inp['vi']) if cfg.get('carrier') == 'int' else inp['t']
    want = SP.Q(t, s, n, f, r, o)
    out = [('format_kept', ob['fmt'] == [s, n, f]),
           ('code_is_quantised_transformed_value', T.icmp(code, want, '==')),
           ('read_back_is_affine_image', SP.dy_eq(SP.dy(rd), _affine(want, f, sc, bi)))]
    fo, fu, fi = SP.flags(t, s, n, f, r, o)
    out.append(('overflow_flag', SP.IFF(st['overflow'], fo)))
    out.append(('underflow_flag', SP.IFF(st['underflow'], fu)))
    out.append(('inaccuracy_flag', SP.IFF(st['inaccuracy'], fi)))
    lo, hi = SP.limits(s, n)
    S, B = _fr(sc), _fr(bi)
    lsb = Fraction(1, 1 << f) if f >= 0 else Fraction(1 << -f)
    out.append(('upper_mapped', _fr(ob['upper']) == S * hi * lsb + B))
    out.append(('lower_mapped', _fr(ob['lower']) == S * lo * lsb + B))
    out.append(('precision_mapped_through_scale_only', _fr(ob['precision']) == S * lsb))
    return out


CANARIES = [
    dict(name='bias added before the scale is applied on read-back',
         mutate={'objects.py': [('            val = val * self.scale + self.bias', '            val = (val + self.bias) * self.scale')]},
         cfgs=[dict(part='store', signed=True, n_word=8, n_frac=2, rounding='trunc', overflow='saturate', scale=2.0, bias=1.0, entry='set_val')]),
    dict(name='precision of a scaled object also shifted by the bias',
         mutate={'objects.py': [('            self.precision = self.scale * self.precision', '            self.precision = self.scale * self.precision + self.bias')]},
         cfgs=[dict(part='store', signed=True, n_word=8, n_frac=2, rounding='trunc', overflow='saturate', scale=0.5, bias=1.0, entry='ctor')]),
]
