"""Shared vocabulary of the property harnesses: format grids, carriers, snapshots."""
import builtins
import random
from sx import spec as SP, obs as O, term as T, symnp
from sx.spec import ROUNDINGS, OVERFLOWS

_isinstance = builtins.isinstance

NW_Q = (1, 2, 3, 5, 8, 13, 16, 24, 31, 32, 33, 48, 52)


def nf_grid(n):
    return sorted(set([-8, -1, 0, 1, n // 2, n - 1, n, n + 1, n + 8]))


def formats_q():
    return [(s, n, f) for s in (True, False) for n in NW_Q for f in nf_grid(n)]


def formats_core():
    return [(s, n, f) for s in (True, False) for n in range(1, 53) for f in range(-8, n + 9)]


def formats_small(max_word=6, nf_lo=-2, nf_extra=2):
    return [(s, n, f) for s in (True, False) for n in range(1, max_word + 1) for f in range(nf_lo, n + nf_extra + 1)]


def modes():
    return [(r, o) for r in ROUNDINGS for o in OVERFLOWS]


def fmt_str(s, n, f):
    return 'fxp-%s%d/%d' % ('s' if s else 'u', n, f)


def pick(seq, k, rng):
    seq = list(seq)
    if len(seq) <= k:
        return seq
    return rng.sample(seq, k)


def code_range(signed, n_word):
    return SP.limits(signed, n_word)


# ---- building values the same way on the lifted and on the real side

def mk_scalar(F, dtype, v):
    """NumPy scalar of the given dtype holding v"""
    if F.symbolic:
        dt = symnp.as_dtype(dtype)
        return symnp.ndarray._new([symnp.cast_cell(v, dt, None) if not T.is_sym(v) else v], (), dt, True)
    return F.np.dtype(dtype).type(v)


def mk_array(F, dtype, values, shape=None):
    """ndarray of the given dtype from a flat list of values"""
    if F.symbolic:
        dt = symnp.as_dtype(dtype)
        a = symnp.ndarray._new([v if T.is_sym(v) else symnp.cast_cell(v, dt, None) for v in values], (len(values),), dt)
        return a.reshape(shape) if shape is not None else a
    a = F.np.array(list(values), dtype=dtype)
    return a.reshape(shape) if shape is not None else a


# "age" of the objects built by raw_fxp for the configuration being run (set by the runner from cfg['age']): None = a fresh object;
# otherwise the object has a past -- it lived in another format, held values, was used by several operators, and was then
# re-formatted to the requested format by the named route before the symbolic code is written.  A well-formed object must behave the
# same whatever its past (stale cached attributes are exactly what this is after).
AGE = None
AGE_ROUTES = ('resize', 'resize_dtype', 'resize_nint', 'like', 'resize_signed_then_sizes', 'resize_signed_only', 'int_born',
              'inplace', 'sticky_flags', 'transposed')
# 'inplace': the object already has the requested format, holds other values, is used by every kind of operator (anything those may
#            cache about the value buffer is now warm), and then receives the codes under test by element-wise *in-place* writes
#            (x.set_val(code, raw=True, index=i)); scalars fall back to 'resize'.
# 'transposed': (2-D shapes) the object is the .T of an object of the transposed shape: same values, column-major value buffer.
# 'sticky_flags': an ordinary object whose overflow and underflow flags were raised by an earlier write (sticky until reset());
#            a result computed from it must be flagged only for what happens in the computation itself.


def _use_everything(F, x):
    """one call of every family of operators / renderings / reductions (whatever they memoise about x is computed now)"""
    (~x), (x + x), (x - x), (x * x), (x >> 1), (x << 1), (x & 1), x.bin(), x.hex(), x.get_val(), (x == x), (x < x), x.raw(), x.uraw()
    if x.val.ndim:
        F.np.sum(x), x.max(), x.cumsum()


def _aged(F, signed, n_word, n_frac, shape, kw, AGE):
    k = size_of(shape) if shape else 1
    first = nested([1] * k, shape) if shape else 1
    s0 = (not signed) if (AGE in ('resize_signed_then_sizes', 'resize_signed_only') and n_word > 1) else signed
    if AGE == 'int_born':
        x = F.Fxp(first, s0, n_word + 2, 0, **kw)            # born integer-valued (n_frac = 0, Python ints): value type int
    elif AGE == 'resize_signed_only':
        x = F.Fxp(first, s0, n_word, n_frac, **kw)           # same sizes, other signedness: only the sign is changed later
    else:
        x = F.Fxp(first, s0, n_word + 2, n_frac + 1, **kw)
    # a first life: values, reads, operators
    x.set_val(nested([0] * k, shape) if shape else 0)
    (~x), (x + x), (x >> 1), x.bin(), x.get_val(), (x == x)
    if n_word + 2 < 64 and n_frac + 1 < 60:
        x.astype(int)           # (on a 64+ bit scalar with n_frac != 0 astype(int) raises AttributeError: observed, outside the properties)
    x.set_val(nested([1] * k, shape) if shape else 1)
    if AGE in ('resize', 'int_born'):
        x.resize(signed, n_word, n_frac)
    elif AGE == 'resize_dtype':
        x.resize(dtype=fmt_str(signed, n_word, n_frac))
    elif AGE == 'resize_nint':
        x.resize(n_word=n_word, n_int=n_word - n_frac - int(signed))
    elif AGE == 'resize_signed_only':
        x.resize(signed=signed)
    elif AGE == 'resize_signed_then_sizes':
        x.resize(signed=signed)
        x.resize(n_word=n_word)
        x.resize(n_frac=n_frac)
    else:
        x = x.like(F.Fxp(None, signed, n_word, n_frac, **kw))
    return x


def raw_fxp(F, signed, n_word, n_frac, codes, shape=None, **kw):
    """well-formed object holding the given code(s), built through the public API"""
    age = AGE
    if age == 'inplace' and (shape is None or shape == () or n_word >= 64):
        age = 'resize'
    if age == 'transposed' and (shape is None or len(tuple(shape)) != 2 or n_word >= 64):
        age = 'resize'
    if age == 'transposed':
        r, c = shape
        cl = list(codes)
        base = F.Fxp(None, signed, n_word, n_frac, **kw)
        base.set_val(mk_array(F, 'int64' if signed else 'uint64', [cl[i * c + j] for j in range(c) for i in range(r)], (c, r)), raw=True)
        x = base.T                       # a view of the values with the requested shape, not C-contiguous
        x.reset()
        return x
    if age == 'inplace':
        k = size_of(shape)
        dt = 'int64' if signed else 'uint64'
        x = F.Fxp(None, signed, n_word, n_frac, **kw)
        x.set_val(mk_array(F, dt, [0] * k, shape), raw=True)      # (zeros: whatever is remembered about them -- trailing zeros, magnitude -- is wrong for every other code)
        _use_everything(F, x)
        cl = list(codes)
        for i, ix in enumerate(F.np.ndindex(*shape)):
            x.set_val(cl[i], raw=True, index=ix if len(ix) > 1 else ix[0])
        _ = x.status
        x.reset()
        return x
    if age == 'sticky_flags':
        x = F.Fxp(None, signed, n_word, n_frac, **kw)
        if shape is None or shape == ():
            x.set_val(codes[0] if _isinstance(codes, (list, tuple)) else codes, raw=True)
        else:
            x.set_val(mk_array(F, 'O' if n_word >= 64 else ('int64' if signed else 'uint64'), list(codes), shape), raw=True)
        x.status['overflow'] = True
        x.status['underflow'] = True
        return x
    if age is not None:
        x = _aged(F, signed, n_word, n_frac, shape if shape and shape != () else None, kw, age)
        if shape is None or shape == ():
            x.set_val(codes[0] if _isinstance(codes, (list, tuple)) else codes, raw=True)
        else:
            dt = 'O' if n_word >= 64 else ('int64' if signed else 'uint64')
            x.set_val(mk_array(F, dt, list(codes), shape), raw=True)
        x.reset()
        return x
    x = F.Fxp(None, signed, n_word, n_frac, **kw)
    if shape is None or shape == ():
        x.set_val(codes[0] if _isinstance(codes, (list, tuple)) else codes, raw=True)
    else:
        dt = 'O' if n_word >= 64 else ('int64' if signed else 'uint64')
        x.set_val(mk_array(F, dt, list(codes), shape), raw=True)
    x.reset() if False else None
    return x


def state_fxp(F, signed, n_word, n_frac, codes, shape=None, **kw):
    """well-formed object whose value buffer is set *directly* to the given in-range code(s): the pre-state of an inductive step is
    constructed instead of being produced by set_val (whose dtype-regime and inaccuracy tests would fork on the operand codes and
    re-type them); the buffer has the dtype set_val would have chosen (object for n_word >= 64, else int64 / uint64)"""
    x = F.Fxp(None, signed, n_word, n_frac, **kw)
    dt = 'O' if n_word >= 64 else ('int64' if signed else 'uint64')
    cl = list(codes) if _isinstance(codes, (list, tuple)) else [codes]
    shape = tuple(shape) if shape else ()
    if F.symbolic:
        d = symnp.as_dtype(dt)
        x.val = symnp.ndarray._new([v if T.is_sym(v) else symnp.cast_cell(v, d, None) for v in cl], shape, d, False)
    else:
        a = F.np.empty(len(cl), dtype=dt)
        for i, v in enumerate(cl):
            a[i] = v
        x.val = a.reshape(shape)
    return x


def value_of(F, code, n_frac):
    """the plain Python float code * 2^-n_frac (a symbolic dyadic float on the lifted side)"""
    if F.symbolic and T.is_sym(code):
        return T.mkf(code, -n_frac)
    return float(code) * 2.0 ** (-n_frac)


def cint(v):
    """sizes computed from symbolic data (e.g. the word grown by an expanding shift) are concrete on every path: pin them"""
    if isinstance(v, T.SInt):
        return T.concretize(v)
    if isinstance(v, T.SBool):
        return bool(v)
    return v if v is None or isinstance(v, bool) else int(v)


def fmt_of(x):
    return [bool(cint(x.signed)), cint(x.n_word), cint(x.n_frac)]


def snap_fxp(x, with_value=True):
    d = dict(val=O.snap(x.val), status={k: bool(v) for k, v in x.status.items()}, dtype=x.dtype,
             signed=bool(cint(x.signed)), n_word=cint(x.n_word), n_frac=cint(x.n_frac), n_int=cint(x.n_int))
    if with_value:
        d['value'] = O.snap(x.get_val())
    return d


def cells(snapshot):
    return O.cells(snapshot)


def nested(vals, shape):
    if not shape:
        return vals[0]
    if len(shape) == 1:
        return list(vals)
    k = len(vals) // shape[0]
    return [nested(vals[i * k:(i + 1) * k], shape[1:]) for i in range(shape[0])]


def size_of(shape):
    n = 1
    for s in shape:
        n *= s
    return n
