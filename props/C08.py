"""C08 -- arithmetic into an imposed format equals the exact result quantised into it under the governing configuration."""
import random
from sx import spec as SP, obs as O, term as T
from . import common as C

ID = 'C08'
AGEABLE = True        # a quarter of the configurations build their operands as objects with a past (props/common.py)
ENCODED = ['functions._function_over_two_vars', 'functions._get_sizing', 'functions.add', 'functions.sub', 'functions.mul', 'Fxp._convert_op_input_value',
           'Fxp.__add__', 'Fxp.__radd__', 'Fxp.__sub__', 'Fxp.__rsub__', 'Fxp.__mul__', 'Fxp.__rmul__', 'Fxp.__neg__', 'Fxp.__pos__', 'Fxp.__abs__',
           'Fxp.set_val', 'Fxp.__init__', 'Fxp.set_best_sizes']
ASSUMPTIONS = [
    'operands hold arbitrary in-range codes, no scale/bias; 2 <= n_word <= 12, 0 <= n_frac <= n_word - sign bit',
    'constants are dyadic rationals m*2^-g (|m| < 2^8, g <= 3) or Python ints; with op_input_size="same" the constant is first quantised into the '
    'operand\'s format under the operand\'s modes, with "best" it is represented exactly (default configuration)',
    'the governing configuration is the first operand\'s (the converted constant\'s for reflected operators), or out\'s / out_like\'s when given; '
    'operands are given different modes so that using the wrong one is visible',
    'the result format is asserted for out, out_like and the policies same/largest/smallest (integer and fraction lengths per policy, signed as soon '
    'as one operand is signed); in every case the stored code must equal the exact result quantised into the format the result reports',
]
OPS = ('add', 'sub', 'mul')
_PY = {'add': lambda a, b: a + b, 'sub': lambda a, b: a - b, 'mul': lambda a, b: a * b}


def _fm():
    return [(s, n, f) for s in (True, False) for n in (2, 3, 4, 5, 8, 12) for f in sorted(set([0, 1, n // 2, n - int(s)]))]


def configs(tier, seed):
    rng = random.Random(seed)
    fm = _fm()
    out = []
    npair = 60 if tier == 'quick' else 600
    for _ in range(npair):
        x, y = rng.choice(fm), rng.choice(fm)
        for sizing in ('optimal', 'same', 'largest', 'smallest'):
            for (r, o) in (C.pick(C.modes(), 2, rng) if tier == 'quick' else C.modes()):
                r2, o2 = rng.choice([m for m in C.modes() if m != (r, o)])
                op = rng.choice(OPS)
                out.append(dict(part='pair', op=op, x=list(x), y=list(y), sizing=sizing, target=None, rounding=r, overflow=o, rounding2=r2, overflow2=o2))
        for tgt in ('out', 'out_like'):
            t = rng.choice([f for f in fm if f[0] or not (x[0] or y[0])])
            (r, o) = rng.choice(C.modes())
            r2, o2 = rng.choice([m for m in C.modes() if m != (r, o)])
            out.append(dict(part='pair', op=rng.choice(OPS), x=list(x), y=list(y), sizing=rng.choice(('optimal', 'same')), target=tgt, t=list(t),
                            rounding=r, overflow=o, rounding2=r2, overflow2=o2))
    # element-wise on arrays: each element is quantised on its own, the flags report the union (one element may overflow while another underflows)
    for _ in range(40 if tier == 'quick' else 400):
        x, y = rng.choice(fm), rng.choice(fm)
        (r, o) = rng.choice(C.modes())
        r2, o2 = rng.choice([m for m in C.modes() if m != (r, o)])
        tgt = rng.choice((None, None, 'out', 'out_like'))
        c = dict(part='pair', op=rng.choice(OPS), x=list(x), y=list(y), sizing=rng.choice(('same', 'smallest', 'largest', 'optimal')), target=tgt,
                 rounding=r, overflow=o, rounding2=r2, overflow2=o2, shape=[2], yshape=rng.choice(([2], [])))
        if tgt:
            c['t'] = list(rng.choice([f for f in fm if f[0] or not (x[0] or y[0])]))
            c['sizing'] = rng.choice(('optimal', 'same'))
        out.append(c)
    for _ in range(40 if tier == 'quick' else 400):
        x = rng.choice(fm)
        (r, o) = rng.choice(C.modes())
        out.append(dict(part='const', op=rng.choice(OPS), x=list(x), kind=rng.choice(('float', 'int')), g=rng.choice((0, 1, 3)), side=rng.choice(('right', 'left')),
                        input_size='same', const_sizing=rng.choice(('same', 'optimal', 'largest')), rounding=r, overflow=o))
    for _ in range(10 if tier == 'quick' else 100):
        x = rng.choice([f for f in fm if f[1] <= 5])
        (r, o) = rng.choice(C.modes())
        out.append(dict(part='const', op=rng.choice(OPS), x=list(x), kind='float', g=rng.choice((0, 1, 2)), side=rng.choice(('right', 'left')),
                        input_size='best', const_sizing='same', rounding=r, overflow=o, mbits=4))
    for x in (C.pick(fm, 12, rng) if tier == 'quick' else fm):
        for u in ('neg', 'pos', 'abs'):
            out.append(dict(part='unary', op=u, x=list(x)))
    return out


def cost(cfg):
    return 30 if cfg.get('input_size') == 'best' else (3 if cfg['part'] == 'const' else 1)


def inputs(cfg):
    lo, hi = SP.limits(cfg['x'][0], cfg['x'][1])
    sp = {'a': dict(kind='int', lo=lo, hi=hi)}
    if cfg['part'] == 'pair':
        lo2, hi2 = SP.limits(cfg['y'][0], cfg['y'][1])
        sp['b'] = dict(kind='int', lo=lo2, hi=hi2)
        if cfg.get('shape'):
            sp['a1'] = dict(kind='int', lo=lo, hi=hi)
            if cfg.get('yshape'):
                sp['b1'] = dict(kind='int', lo=lo2, hi=hi2)
    elif cfg['part'] == 'const':
        mb = cfg.get('mbits', 8)
        if cfg['kind'] == 'int':
            sp['m'] = dict(kind='int', lo=-(1 << mb) + 1, hi=(1 << mb) - 1)
        else:
            sp['m'] = dict(kind='float', lo=-(1 << mb) + 1, hi=(1 << mb) - 1, exp=-cfg['g'])
    return sp


def _snap(z):
    return dict(val=O.snap(z.val), fmt=C.fmt_of(z), status={k: bool(z.status[k]) for k in ('overflow', 'underflow', 'inaccuracy')},
                rounding=z.config.rounding, overflow=z.config.overflow)


def run(F, cfg, inp):
    sx, nx, fx = cfg['x']
    if cfg['part'] == 'unary':
        x = C.raw_fxp(F, sx, nx, fx, inp['a'])
        z = {'neg': lambda v: -v, 'pos': lambda v: +v, 'abs': lambda v: abs(v)}[cfg['op']](x)
        return dict(z=_snap(z), x=O.snap(x.val))
    if cfg['part'] == 'pair':
        sy, ny, fy = cfg['y']
        ob = {}
        for method in ('raw', 'repr'):
            # codes are stored first (under the default saturating configuration, which leaves an in-range code untouched
            # syntactically), the modes under test are configured afterwards
            if cfg.get('shape'):
                x = C.raw_fxp(F, sx, nx, fx, [inp['a'], inp['a1']], (2,), op_sizing=cfg['sizing'], op_method=method)
                y = C.raw_fxp(F, sy, ny, fy, [inp['b'], inp['b1']], (2,)) if cfg.get('yshape') else C.raw_fxp(F, sy, ny, fy, inp['b'])
            else:
                x = C.raw_fxp(F, sx, nx, fx, inp['a'], op_sizing=cfg['sizing'], op_method=method)
                y = C.raw_fxp(F, sy, ny, fy, inp['b'])
            x.config.rounding, x.config.overflow = cfg['rounding'], cfg['overflow']
            y.config.rounding, y.config.overflow = cfg['rounding2'], cfg['overflow2']
            if cfg['target'] is None:
                z = _PY[cfg['op']](x, y)
                ob[method] = _snap(z)
            else:
                ts, tn, tf = cfg['t']
                t = F.Fxp(None, ts, tn, tf, rounding=cfg['rounding2'], overflow=cfg['overflow'])      # a third combination of modes
                if cfg['target'] == 'out_like':
                    # a template that raised flags in its own past: the result is a new object and reports this operation only
                    t.status['overflow'] = t.status['underflow'] = True
                fn = getattr(F.pkg, cfg['op'])
                if cfg['target'] == 'out':
                    z = fn(x, y, out=t, sizing=cfg['sizing'], method=method)
                    ob[method] = _snap(z)
                    ob[method]['is_out'] = z is t
                else:
                    z = fn(x, y, out_like=t, sizing=cfg['sizing'], method=method)
                    ob[method] = _snap(z)
                    ob[method]['is_out'] = z is not t
        return ob
    x = C.raw_fxp(F, sx, nx, fx, inp['a'], op_input_size=cfg['input_size'], const_op_sizing=cfg['const_sizing'])
    x.config.rounding, x.config.overflow = cfg['rounding'], cfg['overflow']
    m = inp['m']
    z = _PY[cfg['op']](x, m) if cfg['side'] == 'right' else _PY[cfg['op']](m, x)
    return dict(z=_snap(z))


def _exact(op, a, fa, b, fb):
    """exact dyadic (num, exp) of (a*2^-fa) op (b*2^-fb)"""
    if op == 'mul':
        return T.imul(a, b), -(fa + fb)
    f = max(fa, fb)
    A, B = T.ishl(a, f - fa), T.ishl(b, f - fb)
    return (T.iadd(A, B) if op == 'add' else T.isub(A, B)), -f


def _quantised_ok(name, z, exact, r, o):
    s, n, f = z['fmt']
    exacts = exact if isinstance(exact, list) else [exact]
    codes = O.cells(z['val'])
    out = [(name + ':n_cells', len(codes) == len(exacts))]
    fls = [SP.flags(e, s, n, f, r, o) for e in exacts]
    for i, (e, code) in enumerate(zip(exacts, codes)):
        out.append((name + ':code' + ('_%d' % i if i else ''), T.icmp(code, SP.Q(e, s, n, f, r, o), '==')))
    out.append((name + ':overflow_flag', SP.IFF(z['status']['overflow'], SP.OR(*[fl[0] for fl in fls]))))
    out.append((name + ':underflow_flag', SP.IFF(z['status']['underflow'], SP.OR(*[fl[1] for fl in fls]))))
    return out


def post(cfg, inp, ob):
    sx, nx, fx = cfg['x']
    a = inp['a']
    if cfg['part'] == 'unary':
        z = ob['z']
        lo, hi = SP.limits(sx, nx)
        ex = {'neg': T.ineg(a), 'pos': a, 'abs': T.iabs(a)}[cfg['op']]
        rep = SP.AND(T.icmp(ex, lo, '>='), T.icmp(ex, hi, '<='))
        return [('format_kept', z['fmt'] == [sx, nx, fx]), ('operand_unchanged', T.icmp(O.cells(ob['x'])[0], a, '==')),
                ('exact_when_representable', SP.IMPLIES(rep, T.icmp(O.cells(z['val'])[0], ex, '=='))),
                ('no_flag_when_representable', SP.IMPLIES(rep, not (z['status']['overflow'] or z['status']['underflow'])))]
    if cfg['part'] == 'pair':
        sy, ny, fy = cfg['y']
        b = inp['b']
        exact = _exact(cfg['op'], a, fx, b, fy)
        if cfg.get('shape'):
            exact = [exact, _exact(cfg['op'], inp['a1'], fx, inp['b1'] if cfg.get('yshape') else b, fy)]
        out = []
        if cfg['target'] is None:
            r, o = cfg['rounding'], cfg['overflow']              # first operand's configuration governs
        else:
            r, o = cfg['rounding2'], cfg['overflow']             # the target's
        for method in ('raw', 'repr'):
            z = ob[method]
            out.append((method + ':config_carried', (z['rounding'], z['overflow']) == (r, o)))
            out += _quantised_ok(method, z, exact, r, o)
            if cfg['target'] is not None:
                out.append((method + ':target_format', z['fmt'] == cfg['t']))
                out.append((method + ':identity', z['is_out'] is True))
            else:
                # integer and fraction lengths follow the policy; the result is signed as soon as one operand is (so with operands of
                # different signedness 'largest' still holds the integer part of the unsigned operand next to the sign bit)
                ix, iy = nx - fx - int(sx), ny - fy - int(sy)
                sz = sx or sy
                want = {'same': (ix, fx), 'largest': (max(ix, iy), max(fx, fy)), 'smallest': (min(ix, iy), min(fx, fy))}.get(cfg['sizing'])
                if want is not None:
                    out.append((method + ':policy_format', z['fmt'] == [sz, int(sz) + want[0] + want[1], want[1]]))
        out.append(('raw_and_repr_agree', SP.AND(ob['raw']['fmt'] == ob['repr']['fmt'],
                                                 *[T.icmp(u, v, '==') for u, v in zip(O.cells(ob['raw']['val']), O.cells(ob['repr']['val']))])))
        return out
    # constant operand
    z = ob['z']
    m = SP.dy(inp['m'])
    r, o = cfg['rounding'], cfg['overflow']
    if cfg['input_size'] == 'same':
        cm, cf = SP.Q(m, sx, nx, fx, r, o), fx                   # the constant quantised into x's format under x's modes
        gr, go = r, o
    else:
        cm, cf = m[0], -m[1]                                     # exact
        # __radd__ / __rmul__ are the forward operators (x stays the first operand); only __rsub__ puts the converted
        # constant first, and an exactly-sized constant carries the default configuration
        gr, go = (r, o) if (cfg['side'] == 'right' or cfg['op'] != 'sub') else ('trunc', 'saturate')
    if cfg['side'] == 'right':
        exact = _exact(cfg['op'], a, fx, cm, cf)
    else:
        exact = _exact(cfg['op'], cm, cf, a, fx)
    out = _quantised_ok('const', z, exact, gr, go)
    if cfg['input_size'] == 'same' and cfg['const_sizing'] in ('same', 'largest'):
        out.append(('const:format_same_as_operand', z['fmt'] == [sx, nx, fx]))
    return out


CANARIES = [
    dict(name='result built with the second operand\'s configuration',
         mutate={'functions.py': [('    else:\n        config = x.config\n\n    if method == \'repr\' or x.scaled or n_frac is None:\n        raw = False\n        val = repr_func(x.get_val(), y.get_val(), **kwargs)',
                                   '    else:\n        config = y.config\n\n    if method == \'repr\' or x.scaled or n_frac is None:\n        raw = False\n        val = repr_func(x.get_val(), y.get_val(), **kwargs)')]},
         cfgs=[dict(part='pair', op='mul', x=[True, 8, 4], y=[True, 8, 4], sizing='same', target=None, rounding='around', overflow='wrap', rounding2='floor', overflow2='saturate')]),
    dict(name='constant operand converted with the default format instead of the operand\'s',
         mutate={'objects.py': [("            elif op_input_size == 'same':\n                x_fxp = Fxp(x, like=self)", "            elif op_input_size == 'same':\n                x_fxp = Fxp(x)")]},
         cfgs=[dict(part='const', op='add', x=[True, 8, 2], kind='float', g=3, side='right', input_size='same', const_sizing='same', rounding='trunc', overflow='saturate')]),
]
