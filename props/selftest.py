"""Overlay self-test (not a property): NumPy operations on small arrays with symbolic cells are executed on the overlay and, for every
explored path, on the real NumPy at a witness of the path; the runner's per-path witness validation compares all observables.
`./check selftest quick` -- any divergence is reported as a harness error.  There are no obligations: this validates the model only."""
import random
from sx import spec as SP, obs as O, term as T
from . import common as C

ID = 'selftest'
HANDLES_EXC = True
ENCODED = []
ASSUMPTIONS = ['differential validation of sx/symnp.py and sx/term.py against NumPy on one witness per explored path; not a property check']

EDGES = [0, 1, -1, 2 ** 31, -2 ** 31, 2 ** 32, 2 ** 53, 2 ** 62, 2 ** 63 - 1, -2 ** 63, 2 ** 63, 2 ** 64 - 1, 2 ** 64, -2 ** 64, 7, -100]
BIN = ('add', 'sub', 'mul', 'floordiv', 'mod', 'and', 'or', 'xor', 'lt', 'le', 'eq', 'ne', 'gt', 'ge', 'truediv', 'lshift', 'rshift')
UN = ('neg', 'abs', 'invert', 'floor', 'ceil', 'trunc', 'around', 'fix', 'astype_int64', 'astype_uint64', 'astype_float', 'astype_object', 'sum', 'prod',
      'cumsum', 'max', 'min', 'clip', 'where', 'sort', 'mul_pow2', 'array_of_list')
DT = ('int64', 'uint64', 'float64', 'O', 'int32', 'uint8')


def _win(dt, rng):
    """a small window of integers around an edge that fits the dtype"""
    lim = {'int64': (-2 ** 63, 2 ** 63 - 1), 'uint64': (0, 2 ** 64 - 1), 'int32': (-2 ** 31, 2 ** 31 - 1), 'uint8': (0, 255),
           'float64': (-2 ** 52, 2 ** 52), 'O': (-2 ** 70, 2 ** 70)}[dt]
    e = rng.choice(EDGES)
    lo, hi = max(lim[0], e - 3), min(lim[1], e + 3)
    if lo > hi:
        lo, hi = max(lim[0], -3), min(lim[1], 3)
    return lo, hi


def configs(tier, seed):
    rng = random.Random(seed)
    out = []
    n = 1500 if tier == 'quick' else 12000
    for _ in range(n):
        if rng.random() < 0.6:
            da, db = rng.choice(DT), rng.choice(DT + ('py', 'pyf'))
            out.append(dict(kind='bin', op=rng.choice(BIN), da=da, db=db, wa=_win(da, rng), wb=_win(db if db in DT else 'O', rng), sh=rng.choice(((), (2,)))))
        else:
            da = rng.choice(DT)
            op = rng.choice(UN)
            if da == 'O' and op in ('floor', 'ceil', 'trunc', 'around', 'fix'):
                da = 'float64'          # (NumPy has no rounding loops for object arrays; fxpmath never asks)
            out.append(dict(kind='un', op=op, da=da, wa=_win(da, rng), wb=_win(da, rng), sh=rng.choice(((2,), (3,)))))
    return out


def assume(cfg, inp):
    if cfg['kind'] == 'bin' and cfg['op'] in ('floordiv', 'mod', 'truediv'):
        b = inp['b0']
        return T.fcmp(b, 0, '!=') if isinstance(b, (T.SFloat, float)) else T.icmp(b, 0, '!=')      # zero divisors: excluded (C09)
    return True


def inputs(cfg):
    sp = {}
    n = C.size_of(cfg['sh']) if cfg['sh'] else 1
    isf = cfg['da'] == 'float64'
    for i in range(n):
        if isf:
            sp['a%d' % i] = dict(kind='float', lo=cfg['wa'][0] * 4, hi=cfg['wa'][1] * 4, exp=-2)
        else:
            sp['a%d' % i] = dict(kind='int', lo=cfg['wa'][0], hi=cfg['wa'][1])
    if cfg['kind'] == 'bin':
        if cfg['db'] in ('float64', 'pyf'):
            lo, hi = max(cfg['wb'][0], -2 ** 50), min(cfg['wb'][1], 2 ** 50)
            if lo > hi:
                lo, hi = -3, 3
            sp['b0'] = dict(kind='float', lo=lo * 4, hi=hi * 4, exp=-2)
        else:
            sp['b0'] = dict(kind='int', lo=cfg['wb'][0], hi=cfg['wb'][1])
    else:
        sp['b0'] = dict(kind='int', lo=cfg['wb'][0], hi=cfg['wb'][1])
    return sp


_PY = {'add': lambda a, b: a + b, 'sub': lambda a, b: a - b, 'mul': lambda a, b: a * b, 'floordiv': lambda a, b: a // b, 'mod': lambda a, b: a % b,
       'and': lambda a, b: a & b, 'or': lambda a, b: a | b, 'xor': lambda a, b: a ^ b, 'lt': lambda a, b: a < b, 'le': lambda a, b: a <= b,
       'eq': lambda a, b: a == b, 'ne': lambda a, b: a != b, 'gt': lambda a, b: a > b, 'ge': lambda a, b: a >= b, 'truediv': lambda a, b: a / b,
       'lshift': lambda a, b: a << 3, 'rshift': lambda a, b: a >> 2}


def _arr(F, dt, vals, sh):
    if sh == ():
        a = C.mk_array(F, dt, vals[:1])
        return a.reshape(())
    return C.mk_array(F, dt, vals, sh)


def run(F, cfg, inp):
    np_ = F.np
    n = C.size_of(cfg['sh']) if cfg['sh'] else 1
    a = _arr(F, cfg['da'], [inp['a%d' % i] for i in range(n)], tuple(cfg['sh']))
    import warnings
    with warnings.catch_warnings():
        warnings.simplefilter('ignore')
        try:
            if cfg['kind'] == 'bin':
                b = inp['b0'] if cfg['db'] in ('py', 'pyf') else _arr(F, cfg['db'], [inp['b0']], ())
                r = _PY[cfg['op']](a, b)
            else:
                op = cfg['op']
                if op == 'neg':
                    r = -a
                elif op == 'abs':
                    r = abs(a)
                elif op == 'invert':
                    r = ~a
                elif op in ('floor', 'ceil', 'trunc', 'around', 'fix'):
                    r = getattr(np_, op)(a * 0.25 if cfg['da'] == 'float64' else a)
                elif op.startswith('astype_'):
                    r = a.astype({'int64': np_.int64, 'uint64': np_.uint64, 'float': float, 'object': object}[op[7:]])
                elif op in ('sum', 'prod', 'cumsum', 'max', 'min', 'sort'):
                    r = getattr(np_, op)(a)
                elif op == 'clip':
                    r = np_.clip(a, 0 if cfg['da'].startswith('u') else -5, inp['b0'])
                elif op == 'where':
                    r = np_.where(a < inp['b0'], a, a * 2)
                elif op == 'mul_pow2':
                    r = a * 2 ** 40
                else:
                    r = np_.array([inp['a0'], inp['b0']])
        except (OverflowError, TypeError, ValueError, ZeroDivisionError) as e:
            return dict(exc=type(e).__name__)
    return dict(r=O.snap(r))


def post(cfg, inp, ob):
    return []
