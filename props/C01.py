"""C01 -- storing a value quantises it exactly: code == OVERFLOW(ROUND(v * 2^n_frac)), read-back == code * 2^-n_frac,
independently of the carrier of the value and of the entry point."""
import random
from sx import spec as SP, obs as O, term as T
from . import common as C

ID = 'C01'
TITLE = 'Storing a value quantizes it exactly'
ENCODED = ['Fxp.__init__', 'Fxp._init_size', 'Fxp.resize', 'Fxp.set_val', 'Fxp._format_inupt_val', 'Fxp._get_conv_factor',
           'Fxp._round', 'Fxp._overflow_action', 'utils.clip', 'utils.wrap', 'utils.int_array', 'Fxp.astype', 'Fxp.get_val',
           'Fxp.__call__', 'Fxp.__setitem__', 'utils.str2num']
ASSUMPTIONS = [
    'float inputs are dyadic rationals k*2^-(n_frac+G) (a superset of the doubles on that grid); quick G=64, thorough G=1074-n_frac for the scalar float rows',
    'decimal-string carriers are numerals [sign] d..d [.fraction] [e exponent] with 1..6 symbolic integer digits and a concrete dyadic fraction '
    '(.5, .25, .375, ...) and exponent (e0, e1, e2); other decimal fractions (float() rounds them) and NaN/inf are outside the model',
    'NumPy overlay (sx/symnp.py) agrees with NumPy 2.5.3 on the executed operations (validated per path against the real code)',
]

INT_DT = {'int8': (-128, 127), 'int16': (-2 ** 15, 2 ** 15 - 1), 'int32': (-2 ** 31, 2 ** 31 - 1), 'int64': (-2 ** 63, 2 ** 63 - 1),
          'uint8': (0, 255), 'uint16': (0, 2 ** 16 - 1), 'uint32': (0, 2 ** 32 - 1), 'uint64': (0, 2 ** 64 - 1)}
FLT_DT = {'float16': (11, -24, 16), 'float32': (24, -149, 128), 'float64': (53, -1074, 1024)}   # sig bits, min exp, max magnitude exp

SCALAR_CARRIERS = ['pyint', 'pyfloat'] + ['np:' + d for d in list(INT_DT) + list(FLT_DT)]
ARRAY_CARRIERS = ['arr:' + d for d in ('int8', 'int32', 'int64', 'uint16', 'uint64', 'float32', 'float64')] + ['list', 'tuple', 'nested', 'listf']
ENTRIES = ('ctor', 'call', 'set_val', 'setitem')
# stores into an object with a history: it held a value in another format and was re-formatted by one of the spellings of resize / like
HISTORY_ENTRIES = ('hist:resize', 'hist:resize_nint_word', 'hist:resize_nint_frac', 'hist:resize_dtype', 'hist:like', 'hist:raw_then_value')
BIG_EXPS = (-1074, -600, -60, -30, -1, 0, 9, 10, 11, 12, 40, 62, 63, 64, 65, 100, 511, 960, 970)


def _cfg(s, n, f, r, o, carrier='pyfloat', entry='set_val', G=64, big=None):
    return dict(signed=s, n_word=n, n_frac=f, rounding=r, overflow=o, carrier=carrier, entry=entry, G=G, big=big)


def configs(tier, seed):
    rng = random.Random(seed)
    out = []
    fm = C.formats_q() if tier == 'quick' else C.formats_core()
    if tier == 'quick':
        extra = C.pick(C.formats_core(), 24, rng)
        fm = fm + [f for f in extra if f not in fm]
    for (s, n, f) in fm:
        for (r, o) in C.modes():
            G = 64 if tier == 'quick' else max(64, 1074 - f)
            if tier == 'thorough' and (n % 4 != 0 and n not in C.NW_Q):
                G = 64                       # full-double grid on a sub-grid of word lengths (cost), 64 guard bits elsewhere
            out.append(_cfg(s, n, f, r, o, 'pyfloat', 'set_val', G))
            out.append(_cfg(s, n, f, r, o, 'pyint', 'set_val'))
    # carrier x entry matrix on a smaller set of formats
    base = [(True, 8, 2), (False, 8, 3), (True, 5, 0), (False, 3, 5), (True, 16, -3), (True, 13, 14), (False, 24, 12), (True, 32, 16),
            (True, 52, 20), (False, 52, 52), (True, 1, 0), (False, 1, 1)]
    nb = 6 if tier == 'quick' else len(base)
    mats = base[:4] + C.pick(base[4:], nb - 4, rng) if tier == 'quick' else base + C.pick(C.formats_core(), 48, rng)
    for (s, n, f) in mats:
        ms = C.pick(C.modes(), 3, rng) if tier == 'quick' else C.modes()
        for (r, o) in ms:
            for car in SCALAR_CARRIERS + ARRAY_CARRIERS + ['complex']:
                ents = ENTRIES if tier == 'thorough' else C.pick(ENTRIES, 2, rng)
                for ent in ents:
                    out.append(_cfg(s, n, f, r, o, car, ent))
    # floats of any finite magnitude under saturate, n_frac >= 0
    bigf = [(s, n, f) for (s, n, f) in (C.formats_q() if tier == 'thorough' else C.pick(C.formats_q(), 24, rng)) if f >= 0]
    # (a double is m * 2^E with a 53-bit m: one configuration per exponent E, every m symbolic)
    for (s, n, f) in bigf:
        for r in SP.ROUNDINGS:
            es = BIG_EXPS if tier == 'thorough' else C.pick(BIG_EXPS, 2, rng)
            for E in es:
                out.append(_cfg(s, n, f, r, 'saturate', 'pyfloat', rng.choice(ENTRIES) if tier == 'thorough' else 'set_val', 64, big=E))
    # objects with a history (cached attributes must follow the format)
    hist = [(sg, n, f) for (sg, n, f) in C.formats_q() if n <= 33]
    for (sg, n, f) in C.pick(hist, 40 if tier == 'quick' else len(hist), rng):
        for ent in (C.pick(HISTORY_ENTRIES, 2, rng) if tier == 'quick' else HISTORY_ENTRIES):
            (r, o) = rng.choice(C.modes())
            out.append(_cfg(sg, n, f, r, o, rng.choice(('pyfloat', 'pyint')), ent))
    # decimal strings: symbolic integer digits, concrete dyadic fraction / exponent
    decf = [fm_ for fm_ in C.formats_q() if fm_[1] <= 33 or fm_[2] <= 30]
    out += _dec_cfgs(C.pick(decf, 60, rng) if tier == 'quick' else decf, rng, 1 if tier == 'quick' else 3, ENTRIES)
    # arrays and lists mixing one element of any magnitude with ordinary ones (the huge element must not change how the others are rounded)
    for (s, n, f) in C.pick(bigf, 12 if tier == 'quick' else 60, rng):
        for r in C.pick(SP.ROUNDINGS, 2, rng) if tier == 'quick' else SP.ROUNDINGS:
            E = rng.choice(BIG_EXPS[4:])
            c = _cfg(s, n, f, r, 'saturate', rng.choice(('arr:float64', 'listf')), rng.choice(('ctor', 'set_val', 'call')), 16, big=E)
            c['big_first_only'] = True
            out.append(c)
    return out


DEC_SHAPES = [('', ''), ('', '.0'), ('', '.5'), ('', '.25'), ('', '.75'), ('', '.125'), ('', '.375'), ('', '.'), ('', '.5e1'), ('', 'e1'), ('', '.25e2'),
              ('', 'E0'), ('', '.0625')]


def _dec_cfgs(fm, rng, per_format, entries):
    out = []
    for (s, n, f) in fm:
        for _ in range(per_format):
            (r, o) = rng.choice(C.modes())
            _, tail = rng.choice(DEC_SHAPES)
            sign = rng.choice(('', '-', '+')) if s else rng.choice(('', '-', '+', ''))
            e10 = int(tail.lower().split('e')[1]) if 'e' in tail.lower() else 0
            nd = rng.choice((1, 2, 3, 4, 6))
            while nd > 1 and (10 ** (nd + e10)) << max(f, 0) >= 1 << 62:
                nd -= 1
            if (10 ** (nd + e10)) << max(f, 0) >= 1 << 62:
                continue
            car = rng.choice(('decstr', 'decstr', 'decstr:list', 'decstr:nparr'))
            c = _cfg(s, n, f, r, o, car, rng.choice(entries))
            c['dec'] = dict(sign=sign, nd=nd, tail=tail)
            out.append(c)
    return out


def _dec_value(cfg, digits):
    """exact value of the numeral sign + digits + tail as a dyadic (num, exp)"""
    from fractions import Fraction
    d = cfg['dec']
    tail = d['tail'].lower()
    mant, _, ex = tail.partition('e')
    e10 = int(ex) if ex else 0
    fp = mant[1:] if mant.startswith('.') else ''
    fr = (Fraction(int(fp), 10 ** len(fp)) if fp else Fraction(0)) * 10 ** e10
    k = fr.denominator.bit_length() - 1
    assert fr.denominator == 1 << k
    if isinstance(digits, str):
        ip = int(digits)
    else:
        from sx import sstr as S
        ip = S.parse_int(digits, 10)
    num = T.iadd(T.imul(ip, (10 ** e10) << k), fr.numerator)
    return (T.ineg(num) if d['sign'] == '-' else num), -k


def _ncells(cfg):
    car = cfg['carrier']
    if car.startswith('decstr'):
        return 1 if car == 'decstr' else 2
    if car.startswith('arr:') or car in ('list', 'tuple', 'listf'):
        return 2
    if car == 'nested':
        return 4
    if car == 'complex':
        return 2
    return 1


def _kind(cfg):
    car = cfg['carrier']
    if car in ('pyint', 'list', 'tuple', 'nested'):
        return 'int', None
    if car in ('pyfloat', 'listf', 'complex'):
        return 'float', 'float64'
    d = car.split(':')[1]
    return ('int', d) if d in INT_DT else ('float', d)


def inputs(cfg):
    f, G = cfg['n_frac'], cfg['G']
    if cfg['carrier'].startswith('decstr'):
        return {'v%d' % i: dict(kind='str', len=cfg['dec']['nd'], alphabet='0123456789') for i in range(_ncells(cfg))}
    kind, d = _kind(cfg)
    spec = {}
    for i in range(_ncells(cfg)):
        if kind == 'int':
            b = min(53, 62 - f)
            m = (1 << b) - 1 if b > 0 else 0
            lo, hi = -m, m
            if d in INT_DT:
                lo, hi = max(lo, INT_DT[d][0]), min(hi, INT_DT[d][1])
            spec['v%d' % i] = dict(kind='int', lo=lo, hi=hi)
        else:
            sig, emin, emax = FLT_DT[d]
            exp = -(f + G)
            if exp < emin:
                exp = emin
            if cfg.get('big') is not None and (i == 0 or not cfg.get('big_first_only')):
                exp, b = cfg['big'], 53           # v = m * 2^E, |m| < 2^53: every double of that binade range
            else:
                b = min(53, 62 - f, emax) - exp
            m = (1 << max(b, 0)) - 1
            spec['v%d' % i] = dict(kind='float', lo=-m, hi=m, exp=exp, sig=sig)
    return spec


def _carrier(F, cfg, vals):
    car = cfg['carrier']
    if car.startswith('decstr'):
        strs = [cfg['dec']['sign'] + v + cfg['dec']['tail'] for v in vals]
        if car == 'decstr':
            return strs[0], ()
        if car == 'decstr:list':
            return strs, (2,)
        return F.np.array(strs), (2,)
    if car in ('pyint', 'pyfloat'):
        return vals[0], ()
    if car.startswith('np:'):
        return C.mk_scalar(F, car[3:], vals[0]), ()
    if car.startswith('arr:'):
        return C.mk_array(F, car[4:], vals), (2,)
    if car in ('list', 'listf'):
        return list(vals), (2,)
    if car == 'tuple':
        return tuple(vals), (2,)
    if car == 'nested':
        return [[vals[0], vals[1]], [vals[2], vals[3]]], (2, 2)
    if car == 'complex':
        if F.symbolic:
            return T.mkc(vals[0], vals[1]), ()
        return complex(vals[0], vals[1]), ()
    raise ValueError(car)


def run(F, cfg, inp):
    s, n, f = cfg['signed'], cfg['n_word'], cfg['n_frac']
    kw = dict(rounding=cfg['rounding'], overflow=cfg['overflow'])
    vals = [inp['v%d' % i] for i in range(_ncells(cfg))]
    v, shape = _carrier(F, cfg, vals)
    ent = cfg['entry']
    if ent == 'ctor':
        x = F.Fxp(v, s, n, f, **kw)
    elif ent == 'call':
        x = F.Fxp(None, s, n, f, **kw)
        x(v)
    elif ent == 'set_val':
        x = F.Fxp(None, s, n, f, **kw)
        x.set_val(v)
    elif ent.startswith('hist:'):
        # a first life in another format (and a stored value), then the re-formatting, then the store under test
        x = F.Fxp(1.25, not s if n > 1 else s, n + 3, f + 2, **kw)
        x.set_val(-0.5 if x.signed else 0.75)
        h = ent[5:]
        if h == 'resize':
            x.resize(s, n, f)
        elif h == 'resize_nint_word':
            x.resize(signed=s, n_word=n, n_int=n - f - int(s))
        elif h == 'resize_nint_frac':
            x.resize(signed=s, n_frac=f, n_int=n - f - int(s))
        elif h == 'resize_dtype':
            x.resize(dtype=C.fmt_str(s, n, f))
        elif h == 'like':
            x = x.like(F.Fxp(None, s, n, f, **kw))
        else:
            x.resize(s, n, f)
            x.set_val(1, raw=True)
        x.set_val(v)
    else:
        z = C.nested([0] * (2 * C.size_of(shape)), (2,) + shape)
        if cfg['carrier'] == 'complex':
            z = [0j, 0j]
        x = F.Fxp(z, s, n, f, **kw)
        x[1] = v
    return dict(val=O.snap(x.val), value=O.snap(x.get_val()), n_frac=x.n_frac, n_word=x.n_word, signed=x.signed)


def post(cfg, inp, ob):
    s, n, f, r, o = cfg['signed'], cfg['n_word'], cfg['n_frac'], cfg['rounding'], cfg['overflow']
    vals = [inp['v%d' % i] for i in range(_ncells(cfg))]
    if cfg['carrier'].startswith('decstr'):
        vals = [_dec_value(cfg, v) for v in vals]
    out = [('format_kept', (ob['signed'], ob['n_word'], ob['n_frac']) == (s, n, f))]
    codes = O.cells(ob['val'])
    reads = O.cells(ob['value'])
    if cfg['entry'] == 'setitem':
        k = len(codes) // 2
        out.append(('untouched_cells_zero', SP.AND(*[T.icmp(c, 0, '==') if not isinstance(c, complex) else c == 0 for c in codes[:k]])))
        codes, reads = codes[k:], reads[k:]
    if cfg['carrier'] == 'complex':
        # one complex cell: real and imaginary codes
        c = codes[0]
        parts = [(c.real, vals[0]), (c.imag, vals[1])]
        rd = reads[0]
        rparts = [rd.real, rd.imag]
        for j, ((code, v), rv) in enumerate(zip(parts, rparts)):
            want = SP.Q(v, s, n, f, r, o)
            out.append(('code_%s' % 'ri'[j], SP.dy_eq(SP.dy(code), (want, 0))))
            out.append(('readback_%s' % 'ri'[j], SP.dy_eq(SP.dy(rv), (want, -f))))
        return out
    out.append(('val_dtype', ob['val'].dtype in (('int64' if s else 'uint64'), 'object')))
    out.append(('n_cells', len(codes) == len(vals)))
    for i, (code, v, rv) in enumerate(zip(codes, vals, reads)):
        want = SP.Q(v, s, n, f, r, o)
        out.append(('code_%d' % i, T.icmp(code, want, '==')))
        out.append(('readback_%d' % i, SP.dy_eq(SP.dy(rv), (want, -f))))
    return out


CANARIES = [
    dict(name='around implemented as floor(x + 0.5) (ties away from even)',
         mutate={'objects.py': [('rval = np.around(val)', 'rval = np.floor(val + 0.5)')]},
         cfgs=[_cfg(True, 8, 2, 'around', 'saturate')]),
    dict(name='wrap mask is 2^n_word instead of 2^n_word - 1',
         mutate={'utils.py': [('x = np.array(x).astype(dtype) & (m - 1) ', 'x = np.array(x).astype(dtype) & (m) ')]},
         cfgs=[_cfg(False, 8, 2, 'trunc', 'wrap')]),
]
