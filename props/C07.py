"""C07 -- add, subtract, multiply with optimal sizing are exact and never overflow; documented growth rules; nested expressions."""
import random
from sx import spec as SP, obs as O, term as T
from . import common as C

ID = 'C07'
AGEABLE = True        # a quarter of the configurations build their operands as objects with a past (props/common.py)
ENCODED = ['Fxp.__add__', 'Fxp.__sub__', 'Fxp.__mul__', 'Fxp.__radd__', 'Fxp.__rsub__', 'functions.add', 'functions.sub', 'functions.mul',
           'functions._get_sizing', 'functions._function_over_two_vars', 'Fxp.__init__', 'Fxp.set_val', 'Fxp.__array_ufunc__']
ASSUMPTIONS = [
    'operands are well-formed objects holding arbitrary in-range codes (built through the public API with raw=True)',
    'symbolic x symbolic products are shared terms between the lifted code and the specification; their range is decided by interval arithmetic',
    'operands without scale/bias, real (not complex) values, result word <= 53 bits',
]
NW = (1, 2, 3, 4, 8, 13, 24, 26)


def _nfs(n):
    return sorted(set([-1, 0, n // 2, n, n + 1]))


def _fmts():
    return [(s, n, f) for s in (True, False) for n in NW for f in _nfs(n)]


def growth(op, x, y):
    (sx, nx, fx), (sy, ny, fy) = x, y
    ix, iy = nx - fx - int(sx), ny - fy - int(sy)
    s = sx or sy
    if op in ('add', 'sub'):
        f = max(fx, fy)
        i = max(ix, iy) + 1
        return s, int(s) + i + f, f
    return s, nx + ny, fx + fy


def configs(tier, seed):
    rng = random.Random(seed)
    fm = _fmts()
    pairs = [(x, y) for x in fm for y in fm]
    ok = []
    for x, y in pairs:
        for op in ('add', 'sub', 'mul'):
            s, n, f = growth(op, x, y)
            if 1 <= n <= 53:
                ok.append((op, x, y))
    sel = C.pick(ok, 3000 if tier == 'quick' else len(ok), rng)
    out = []
    for op, x, y in sel:
        out.append(dict(part='pair', op=op, x=list(x), y=list(y), route=rng.choice(('operator', 'function', 'numpy')), shape=[]))
    # the documented exception under both overflow modes: unsigned - unsigned with a negative exact difference is that difference
    # quantised into the unsigned result format (0 under saturate, the residue modulo 2^n_word under wrap)
    uu = [(x, y) for x in fm for y in fm if not x[0] and not y[0] and 1 <= growth('sub', x, y)[1] <= 53]
    for x, y in C.pick(uu, 120 if tier == 'quick' else len(uu), rng):
        out.append(dict(part='pair', op='sub', x=list(x), y=list(y), route=rng.choice(('operator', 'function')), shape=[], overflow='wrap'))
    # arrays with broadcasting, and expression trees
    small = [(s, n, f) for (s, n, f) in fm if n <= 8]
    for _ in range(200 if tier == 'quick' else 6000):
        x, y = rng.choice(small), rng.choice(small)
        op = rng.choice(('add', 'sub', 'mul'))
        out.append(dict(part='pair', op=op, x=list(x), y=list(y), route='operator', shape=rng.choice(([2], [2, 1]))))
    for _ in range(300 if tier == 'quick' else 12000):
        depth = 2 if tier == 'quick' else rng.choice((2, 3))
        leaves = [list(rng.choice(small)) for _ in range(4)]
        ops = [rng.choice(('add', 'sub', 'mul')) for _ in range(3)]
        shape_tree = rng.choice(('left', 'balanced')) if depth >= 2 else 'left'
        cfg = dict(part='tree', leaves=leaves, ops=ops, tree=shape_tree)
        if _tree_word(cfg) <= 53 and not _tree_unsigned_sub(cfg):
            out.append(cfg)
    return out


def _tree_fmt(cfg):
    L = [tuple(l) for l in cfg['leaves']]
    o = cfg['ops']
    if cfg['tree'] == 'left':           # ((l0 o0 l1) o1 l2) o2 l3
        a = growth(o[0], L[0], L[1])
        b = growth(o[1], a, L[2])
        return growth(o[2], b, L[3])
    a = growth(o[0], L[0], L[1])        # (l0 o0 l1) o2 (l2 o1 l3)
    b = growth(o[1], L[2], L[3])
    return growth(o[2], a, b)


def _tree_word(cfg):
    return _tree_fmt(cfg)[1]


def _tree_unsigned_sub(cfg):
    """does some subtraction node have two unsigned operands (the documented exception)?"""
    L = [tuple(l) for l in cfg['leaves']]
    o = cfg['ops']
    if cfg['tree'] == 'left':
        a = growth(o[0], L[0], L[1])
        b = growth(o[1], a, L[2])
        nodes = [(o[0], L[0], L[1]), (o[1], a, L[2]), (o[2], b, L[3])]
    else:
        a = growth(o[0], L[0], L[1])
        b = growth(o[1], L[2], L[3])
        nodes = [(o[0], L[0], L[1]), (o[1], L[2], L[3]), (o[2], a, b)]
    return any(op == 'sub' and not x[0] and not y[0] for op, x, y in nodes)


def cost(cfg):
    return 5 if cfg['part'] == 'tree' else (3 if cfg.get('shape') else 1)


def _n(shape):
    return C.size_of(shape) if shape else 1


def inputs(cfg):
    sp = {}
    if cfg['part'] == 'tree':
        for i, (s, n, f) in enumerate(cfg['leaves']):
            lo, hi = SP.limits(s, n)
            sp['c%d' % i] = dict(kind='int', lo=lo, hi=hi)
        return sp
    lo, hi = SP.limits(cfg['x'][0], cfg['x'][1])
    lo2, hi2 = SP.limits(cfg['y'][0], cfg['y'][1])
    nx = _n(cfg['shape'])
    ny = 2 if cfg['shape'] else 1
    for i in range(nx):
        sp['a%d' % i] = dict(kind='int', lo=lo, hi=hi)
    for i in range(ny):
        sp['b%d' % i] = dict(kind='int', lo=lo2, hi=hi2)
    return sp


_PYOP = {'add': lambda a, b: a + b, 'sub': lambda a, b: a - b, 'mul': lambda a, b: a * b}
_NPNAME = {'add': 'add', 'sub': 'subtract', 'mul': 'multiply'}


def _st(z):
    return {k: bool(z.status[k]) for k in ('overflow', 'underflow', 'inaccuracy')}


def run(F, cfg, inp):
    if cfg['part'] == 'tree':
        L = [C.raw_fxp(F, s, n, f, inp['c%d' % i]) for i, (s, n, f) in enumerate(cfg['leaves'])]
        o = [_PYOP[k] for k in cfg['ops']]
        if cfg['tree'] == 'left':
            z = o[2](o[1](o[0](L[0], L[1]), L[2]), L[3])
        else:
            z = o[2](o[0](L[0], L[1]), o[1](L[2], L[3]))
        return dict(z=C.snap_fxp(z, False), status=_st(z))
    (sx, nx, fx), (sy, ny, fy) = cfg['x'], cfg['y']
    shape = tuple(cfg['shape'])
    if shape:
        na = C.size_of(shape)
        x = C.raw_fxp(F, sx, nx, fx, [inp['a%d' % i] for i in range(na)], shape)
        y = C.raw_fxp(F, sy, ny, fy, [inp['b0'], inp['b1']], (2,))
    else:
        x = C.raw_fxp(F, sx, nx, fx, inp['a0'])
        y = C.raw_fxp(F, sy, ny, fy, inp['b0'])
        if cfg.get('overflow'):
            x.config.overflow = cfg['overflow']        # the first operand's configuration governs the result
    if cfg['route'] == 'operator':
        z = _PYOP[cfg['op']](x, y)
    elif cfg['route'] == 'function':
        z = getattr(F.pkg, cfg['op'])(x, y)
    else:
        z = getattr(F.np, _NPNAME[cfg['op']])(x, y)
    return dict(z=C.snap_fxp(z, False), status=_st(z), x=O.snap(x.val), y=O.snap(y.val))


def _exact(op, a, fa, b, fb, f):
    """exact result code on the grid 2^-f of (a*2^-fa) op (b*2^-fb); f is the result fraction length of the growth rule"""
    if op == 'mul':
        return T.imul(a, b)                        # f == fa + fb
    A = T.ishl(a, f - fa)
    B = T.ishl(b, f - fb)
    return T.iadd(A, B) if op == 'add' else T.isub(A, B)


def post(cfg, inp, ob):
    z = ob['z']
    codes = O.cells(z['val'])
    st = ob['status']
    if cfg['part'] == 'tree':
        L = [tuple(l) for l in cfg['leaves']]
        c = [inp['c%d' % i] for i in range(4)]
        o = cfg['ops']

        def node(op, xa, xf, ya, yf):
            fm = growth(op, xf, yf)
            return _exact(op, xa, xf[2], ya, yf[2], fm[2]), fm
        if cfg['tree'] == 'left':
            v, fm = node(o[0], c[0], L[0], c[1], L[1])
            v, fm = node(o[1], v, fm, c[2], L[2])
            v, fm = node(o[2], v, fm, c[3], L[3])
        else:
            v1, f1 = node(o[0], c[0], L[0], c[1], L[1])
            v2, f2 = node(o[1], c[2], L[2], c[3], L[3])
            v, fm = node(o[2], v1, f1, v2, f2)
        out = [('format_growth_rule', (z['signed'], z['n_word'], z['n_frac']) == fm)]
        exact_ok = T.icmp(codes[0], v, '==')
        out += [('tree_exact', exact_ok), ('no_flags', not (st['overflow'] or st['underflow'] or st['inaccuracy']))]
        return out
    x, y, op = tuple(cfg['x']), tuple(cfg['y']), cfg['op']
    fm = growth(op, x, y)
    out = [('format_growth_rule', (z['signed'], z['n_word'], z['n_frac']) == fm)]
    shape = tuple(cfg['shape'])
    na = C.size_of(shape) if shape else 1
    a = [inp['a%d' % i] for i in range(na)]
    b = [inp['b%d' % i] for i in range(2 if shape else 1)]
    out.append(('operands_unchanged', SP.AND(*([T.icmp(u, v, '==') for u, v in zip(O.cells(ob['x']), a)] +
                                               [T.icmp(u, v, '==') for u, v in zip(O.cells(ob['y']), b)]))))
    if shape == (2,):
        pairs, rshape = [(a[0], b[0]), (a[1], b[1])], (2,)
    elif shape == (2, 1):
        pairs, rshape = [(a[0], b[0]), (a[0], b[1]), (a[1], b[0]), (a[1], b[1])], (2, 2)
    else:
        pairs, rshape = [(a[0], b[0])], ()
    out.append(('result_shape', tuple(z['val'].shape) == rshape))
    lo, hi = SP.limits(*fm[:2])
    anyneg = False
    for i, ((u, v), code) in enumerate(zip(pairs, codes)):
        ex = _exact(op, u, x[2], v, y[2], fm[2])
        if op == 'sub' and not fm[0]:
            # unsigned - unsigned: exact when non-negative, otherwise the difference quantised into the unsigned result format
            nonneg = T.icmp(ex, 0, '>=')
            out.append(('exact_nonneg_%d' % i, SP.IMPLIES(nonneg, T.icmp(code, ex, '=='))))
            qneg = SP.OVERFLOW(ex, False, fm[1], cfg.get('overflow') or 'saturate')
            out.append(('neg_difference_quantised_into_unsigned_format_%d' % i, SP.IMPLIES(SP.NOT(nonneg), T.icmp(code, qneg, '=='))))
            anyneg = SP.OR(anyneg, SP.NOT(nonneg))
        else:
            out.append(('exact_%d' % i, T.icmp(code, ex, '==')))
    if op == 'sub' and not fm[0]:
        out.append(('underflow_iff_negative', SP.IFF(st['underflow'], anyneg)))
        out.append(('no_other_flag', SP.AND(not st['overflow'], SP.IFF(st['inaccuracy'], anyneg))))
    else:
        out.append(('no_flags', not (st['overflow'] or st['underflow'] or st['inaccuracy'])))
    return out


CANARIES = [
    dict(name='sum/difference grows by the wrong operand (x.n_int used twice)',
         mutate={'functions.py': [('    n_int = max(x.n_int, y.n_int) + 1\n    n_frac = max(x.n_frac, y.n_frac)\n    n_word = int(signed) + n_int + n_frac\n    optimal_size = (signed, n_word, n_int, n_frac)\n\n    return _function_over_two_vars(repr_func=np.add',
                                   '    n_int = max(x.n_int, x.n_int) + 1\n    n_frac = max(x.n_frac, y.n_frac)\n    n_word = int(signed) + n_int + n_frac\n    optimal_size = (signed, n_word, n_int, n_frac)\n\n    return _function_over_two_vars(repr_func=np.add')]},
         cfgs=[dict(part='pair', op='add', x=[True, 4, 2], y=[True, 8, 2], route='operator', shape=[])]),
]
