"""C11 -- binary and hex strings are faithful images of the code and parse back to it."""
import random
import z3
from sx import spec as SP, obs as O, term as T, sstr as S
from . import common as C

ID = 'C11'
CFG_TIMEOUT = {'quick': 600, 'thorough': 3600}
AGEABLE = True        # a quarter of the configurations build their operands as objects with a past (props/common.py)
ENCODED = ['Fxp.bin', 'Fxp.hex', 'Fxp.base_repr', 'Fxp.from_bin', 'utils.binary_repr', 'utils.hex_repr', 'utils.base_repr', 'utils.insert_frac_point',
           'utils.add_binary_prefix', 'utils.strbin2int', 'utils.strbin2float', 'utils.strhex2int', 'utils.strhex2float', 'utils.str2num',
           'utils.int_array', 'functions.from_bin', 'Fxp.set_val', 'Fxp._format_inupt_val']
ASSUMPTIONS = [
    'strings are modelled with a concrete length and per-position symbolic characters; value-dependent lengths fork on the length',
    'rendering is specified per character: character i of bin() is bit n_word-1-i of the code modulo 2^n_word, hex digit j is the corresponding nibble',
    'value-mode round trip for n_word <= 53, raw-mode round trip up to 128 bits (64 in the quick tier; wider words: rendering is covered by C13/C18 stores, the string round trip is outside the bound); complex strings are outside the model',
]
HEX = '0123456789ABCDEF'


def configs(tier, seed):
    rng = random.Random(seed)
    nws = (2, 3, 4, 7, 8, 9, 16, 31, 32, 33) + ((53,) if tier == 'thorough' else ())
    out = []
    for n in nws:
        for s in (True, False):
            for f in sorted(set([0, 1, n // 2, n])):
                if tier == 'quick' and n > 16 and not (f == n // 2 and s == (n % 2 == 1)):
                    continue        # parsing forks on the bit length of the value: ~2n paths per configuration
                out.append(dict(signed=s, n_word=n, n_frac=f, shape=[], mode='value'))
                if tier == 'thorough' or (f in (0, n // 2) and n <= 16):
                    out.append(dict(signed=s, n_word=n, n_frac=f, shape=[], mode='raw'))
    for n in ((2, 3, 5) if tier == 'quick' else (2, 3, 5, 8)):
        for s in (True, False):
            out.append(dict(signed=s, n_word=n, n_frac=n // 2, shape=[2], mode='value'))
            if tier == 'thorough' or n == 3:
                out.append(dict(signed=s, n_word=n, n_frac=0, shape=[2, 2], mode='value'))
                out.append(dict(signed=s, n_word=n, n_frac=0, shape=[2, 2], mode='value', age='transposed'))     # (the .T of an object: column-major buffer)
    for n in ((64,) if tier == 'quick' else (64, 65, 100, 128)):
        for s in ((True, False) if tier == 'thorough' else (rng.choice((True, False)),)):
            out.append(dict(signed=s, n_word=n, n_frac=rng.choice((0, n // 2, n)), shape=[], mode='raw'))
    for n in (1,):
        out.append(dict(signed=False, n_word=1, n_frac=0, shape=[], mode='render'))
        out.append(dict(signed=True, n_word=1, n_frac=1, shape=[], mode='render'))
    return out


def cost(cfg):
    return cfg['n_word'] * (1 + 3 * len(cfg['shape'])) ** 2


def inputs(cfg):
    lo, hi = SP.limits(cfg['signed'], cfg['n_word'])
    return {'c%d' % i: dict(kind='int', lo=lo, hi=hi) for i in range(C.size_of(cfg['shape']) if cfg['shape'] else 1)}


def _flat(x):
    if isinstance(x, (list, tuple)):
        return [z for y in x for z in _flat(y)]
    if hasattr(x, 'tolist') and not isinstance(x, (str, S.SStr)):
        return _flat(x.tolist())
    return [x]


def run(F, cfg, inp):
    s, n, f = cfg['signed'], cfg['n_word'], cfg['n_frac']
    shape = tuple(cfg['shape'])
    k = C.size_of(shape) if shape else 1
    codes = [inp['c%d' % i] for i in range(k)]
    x = C.raw_fxp(F, s, n, f, codes if shape else codes[0], shape if shape else None)
    ob = dict(bin=_flat(x.bin()), bin_dot=_flat(x.bin(frac_dot=True, prefix='0b')), hex=_flat(x.hex()),
              base2=_flat(x.base_repr(2)), base16=_flat(x.base_repr(16)), base10=_flat(x.base_repr(10)) if n <= 16 else None)
    if cfg['mode'] == 'render':
        return ob
    mk = lambda: F.Fxp(C.nested([0] * k, shape) if shape else None, s, n, f)
    bp = x.bin(prefix='0b')
    hx = x.hex()
    routes = {}
    if cfg['mode'] == 'value':
        routes['ctor_hex'] = F.Fxp(hx, s, n, f)
        y = mk()
        y.set_val(bp)
        routes['set_val_bin'] = y
        y = mk()
        y(x.bin(frac_dot=True, prefix='0b'))
        routes['call_bin_dot'] = y
        if not shape:
            routes['from_bin'] = mk().from_bin(x.bin())
            routes['from_bin_function'] = F.pkg.from_bin(x.bin(), signed=s, n_word=n, n_frac=f)
    else:
        y = mk()
        y.set_val(bp, raw=True)
        routes['raw_bin'] = y
        y = mk()
        y.set_val(hx, raw=True)
        routes['raw_hex'] = y
        if not shape:
            routes['from_bin_raw'] = mk().from_bin(x.bin(), raw=True)
    if shape and cfg['mode'] == 'value':
        lst = list(x.bin(prefix='0b')) if len(shape) == 1 else [list(r) for r in x.bin(prefix='0b')]
        first = F.Fxp(lst, s, n, f)
        y = mk()
        y.set_val(lst, raw=True)                  # the caller's list again, this time as codes: it must still hold the strings
        routes['same_list_value_then_raw'] = y
        routes['same_list_first_use'] = first
    ob['routes'] = {k_: O.snap(v.val) for k_, v in routes.items()}
    return ob


def _ch_is(ch, lit):
    """character equality as a bool / SBool"""
    e = S.ceq(ch, lit)
    return e if isinstance(e, bool) else T.mk_bool(e)


def _bit(u, i):
    return T.icmp(T.imod_pow2(T.ishr(u, i), 1), 1, '==')


def _bin_ok(chars, u, n):
    """chars is the n-character binary image of u (0 <= u < 2^n)"""
    if len(chars) != n:
        return False
    conds = []
    for i, ch in enumerate(chars):
        b = _bit(u, n - 1 - i)
        conds.append(SP.AND(SP.IFF(_ch_is(ch, '1'), b), SP.IFF(_ch_is(ch, '0'), SP.NOT(b))))
    return SP.AND(*conds)


def _hex_ok(chars, u, n):
    nd = (n + 3) // 4
    if len(chars) != nd:
        return False
    conds = []
    for j, ch in enumerate(chars):
        nib = T.imod_pow2(T.ishr(u, 4 * (nd - 1 - j)), 4)
        conds.append(SP.OR(*[SP.AND(T.icmp(nib, v, '=='), _ch_is(ch, HEX[v])) for v in range(16)]))
    return SP.AND(*conds)


def _numeral_ok(chars, c, base):
    """sign-magnitude numeral of c in the given base, no leading zeros"""
    chars = list(chars)
    if not chars:
        return False
    neg = T.icmp(c, 0, '<')
    first_minus = _ch_is(chars[0], '-')
    if first_minus is True:
        body = chars[1:]
    elif first_minus is False:
        body = chars
    else:
        return False            # the sign character is concrete on every path (the renderer forks on the sign)
    if not body:
        return False
    lead_ok = True if len(body) == 1 else SP.NOT(_ch_is(body[0], '0'))
    val = S.parse_int(S.norm(body), base) if not all(isinstance(ch, str) for ch in body) else int(''.join(body), base)
    return SP.AND(SP.IFF(first_minus, neg), lead_ok, T.icmp(val, T.iabs(c), '=='))


def post(cfg, inp, ob):
    s, n, f = cfg['signed'], cfg['n_word'], cfg['n_frac']
    shape = cfg['shape']
    k = C.size_of(shape) if shape else 1
    codes = [inp['c%d' % i] for i in range(k)]
    out = []
    for key in ('bin', 'bin_dot', 'hex', 'base2', 'base16'):
        out.append((key + ':count', len(ob[key]) == k))
    for i, c in enumerate(codes):
        u = T.imod_pow2(c, n)
        b = S.chars_of(ob['bin'][i])
        out.append(('bin_%d' % i, _bin_ok(b, u, n)))
        bd = S.chars_of(ob['bin_dot'][i])
        ok = len(bd) == n + 3 and bd[0] == '0' and bd[1] == 'b'
        if ok:
            body = bd[2:]
            dot = n - f
            ok = body[dot] == '.' and _bin_ok(body[:dot] + body[dot + 1:], u, n)
        out.append(('bin_with_point_and_prefix_%d' % i, ok))
        h = S.chars_of(ob['hex'][i])
        ok = len(h) >= 2 and h[0] == '0' and h[1] == 'x' and _hex_ok(h[2:], u, n)
        out.append(('hex_%d' % i, ok))
        out.append(('base_repr_2_%d' % i, _numeral_ok(S.chars_of(ob['base2'][i]), c, 2)))
        out.append(('base_repr_16_%d' % i, _numeral_ok(S.chars_of(ob['base16'][i]), c, 16)))
        if ob.get('base10') is not None:
            out.append(('base_repr_10_%d' % i, _numeral_ok(S.chars_of(ob['base10'][i]), c, 10)))
    for name, snap in (ob.get('routes') or {}).items():
        got = O.cells(snap)
        out.append(('roundtrip:%s' % name, SP.AND(len(got) == k, *[T.icmp(g, c, '==') for g, c in zip(got, codes)])))
    return out


CANARIES = [
    dict(name='hex parsing sign-extends from the wrong bit (word length rounded up to a multiple of 4)',
         mutate={'utils.py': [("    x = x.replace('0x', '')\n    if n_word is None:\n        n_word = len(x)*4\n\n    x_bin = bin(int(x, 16))\n\n    if len(x_bin[2:]) < n_word:\n        x_bin = '0b' + '0'*(n_word - len(x_bin[2:])) + x_bin[2:]\n\n    val = strbin2int(x_bin, signed, n_word)",
                               "    x = x.replace('0x', '')\n    n_word = len(x)*4\n\n    x_bin = bin(int(x, 16))\n\n    if len(x_bin[2:]) < n_word:\n        x_bin = '0b' + '0'*(n_word - len(x_bin[2:])) + x_bin[2:]\n\n    val = strbin2int(x_bin, signed, n_word)")]},
         cfgs=[dict(signed=True, n_word=7, n_frac=0, shape=[], mode='value')]),
    dict(name='binary point inserted one digit too far left',
         mutate={'utils.py': [("            x_bin = x_bin[0:-n_frac] + '.' + x_bin[-n_frac:]", "            x_bin = x_bin[0:-n_frac-1] + '.' + x_bin[-n_frac-1:]")]},
         cfgs=[dict(signed=True, n_word=8, n_frac=4, shape=[], mode='render')]),
]
