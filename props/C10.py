"""C10 -- format conversion gives the same correctly quantised value by every route."""
import random
from sx import spec as SP, obs as O, term as T
from . import common as C

ID = 'C10'
ENCODED = ['Fxp.resize', 'Fxp.like', 'Fxp.__init__', 'Fxp.set_val', 'Fxp._format_inupt_val', 'Fxp.equal', 'Fxp.__setitem__', 'Fxp._parseformatstr',
           'Fxp.__call__', 'Fxp.deepcopy']
ASSUMPTIONS = ['the scaled source value stays inside the core window |v * 2^n_frac(dst)| < 2^62 (C19 covers the 64-bit boundary)',
               'the source holds arbitrary in-range code(s); every route runs on a fresh copy of the same source in one symbolic path',
               'sequences of conversions follow from the single step because the source state is arbitrary (no separate history search)']
ROUTES = ('resize', 'resize_partial', 'resize_dtype', 'like_kw', 'like_method', 'construct', 'assign', 'call', 'equal', 'setitem')


def _fm_small():
    return [(s, n, f) for s in (True, False) for n in range(1, 9) for f in sorted(set([-1, 0, n // 2, n, n + 1]))]


def _fm_big():
    return [(s, n, f) for s in (True, False) for n in (16, 31, 32, 33, 52) for f in sorted(set([0, n // 2, n]))]


def configs(tier, seed):
    rng = random.Random(seed)
    fm = _fm_small() + _fm_big()
    if tier == 'thorough':
        fm = [(s, n, f) for s in (True, False) for n in range(1, 13) for f in sorted(set([-2, -1, 0, 1, n // 2, n - 1, n, n + 1]))] + _fm_big() + \
            C.pick(C.formats_core(), 40, rng)
    out = []
    npairs = 260 if tier == 'quick' else 12000
    for _ in range(npairs):
        src, dst = rng.choice(fm), rng.choice(fm)
        if rng.random() < 0.4:
            # destinations that differ from the source in one or two size fields only (sign flip, wider / narrower word with the
            # same fraction length, ...): the cases a conversion shortcut would single out
            s0, n0, f0 = src
            k = rng.choice((1, 2, 4))
            dst = rng.choice([(not s0, n0 + k, f0), (not s0, n0, f0), (s0, n0 + k, f0), (s0, max(1, n0 - k), f0), (s0, n0, f0 + k), (s0, n0, f0 - k),
                              (not s0, max(1, n0 - k), f0), (s0, n0 + k, f0 + k), (s0, n0, f0)])
        r, o = rng.choice(C.modes())
        shape = rng.choice(([], [], [], [3], [2, 2])) if tier == 'thorough' else rng.choice(([], [], [], [], [3], [2, 2]))
        if o == 'saturate' and shape:
            shape = [2]            # saturation forks per element and route (int/float kind of the clipped value): keep arrays small
        out.append(dict(src=list(src), dst=list(dst), rounding=r, overflow=o, shape=shape))
    return out


def cost(cfg):
    return (1 + C.size_of(cfg['shape']) ** 2 if cfg['shape'] else 1) * (3 if cfg['overflow'] == 'saturate' else 1)


def inputs(cfg):
    lo, hi = SP.limits(cfg['src'][0], cfg['src'][1])
    return {'c%d' % i: dict(kind='int', lo=lo, hi=hi) for i in range(C.size_of(cfg['shape']) if cfg['shape'] else 1)}


def assume(cfg, inp):
    # core-domain window of C01 on the destination side: |v * 2^n_frac(dst)| < 2^62 (beyond it the int64 regime of C19 begins)
    k = cfg['dst'][2] - cfg['src'][2]
    if k <= 0:
        return True
    n = C.size_of(cfg['shape']) if cfg['shape'] else 1
    lim = 1 << max(62 - k, 0)
    return SP.AND(*[SP.AND(T.icmp(inp['c%d' % i], lim, '<'), T.icmp(inp['c%d' % i], -lim, '>')) for i in range(n)])


def _st(x):
    return {k: bool(x.status[k]) for k in ('overflow', 'underflow', 'inaccuracy')}


def _snap(z):
    return dict(val=O.snap(z.val), fmt=C.fmt_of(z), shape=list(z.val.shape), status=_st(z))


def run(F, cfg, inp):
    (ss, sn, sf), (ds, dn, df) = cfg['src'], cfg['dst']
    shape = tuple(cfg['shape'])
    kw = dict(rounding=cfg['rounding'], overflow=cfg['overflow'])
    ncell = C.size_of(shape) if shape else 1
    codes = [inp['c%d' % i] for i in range(ncell)]

    def source(**k):
        return C.raw_fxp(F, ss, sn, sf, codes if shape else codes[0], shape if shape else None, **k)

    def dest():
        z = [0] * ncell
        return F.Fxp(C.nested(z, shape) if shape else None, ds, dn, df, **kw)
    ob = {}
    src = source()
    # 1. resize by sizes, 2. by dtype string (the object's own modes govern)
    a = source(**kw)
    a.resize(ds, dn, df)
    ob['resize'] = _snap(a)
    # (only the size arguments that change are passed)
    a = source(**kw)
    a.resize(**{k_: v_ for k_, v_, old in (('signed', ds, ss), ('n_word', dn, sn), ('n_frac', df, sf)) if v_ != old})
    ob['resize_partial'] = _snap(a)
    b = source(**kw)
    b.resize(dtype=C.fmt_str(ds, dn, df))
    ob['resize_dtype'] = _snap(b)
    # 3. like= keyword, 4. like() method
    ob['like_kw'] = _snap(F.Fxp(src, like=dest()))
    ob['like_method'] = _snap(src.like(dest()))
    # 5. constructing from another object, 6. assigning it (set_val / call)
    ob['construct'] = _snap(F.Fxp(src, ds, dn, df, **kw))
    d = dest()
    d.set_val(src)
    ob['assign'] = _snap(d)
    d = dest()
    d(src)
    ob['call'] = _snap(d)
    # 7. equal()
    d = dest()
    d.equal(src)
    ob['equal'] = _snap(d)
    # 8. indexed assignment of a fixed-point element (first element of the source into slot 1 of a 2-vector)
    d2 = F.Fxp([0, 0], ds, dn, df, **kw)
    d2[1] = src[tuple([0] * len(shape))] if shape else src
    ob['setitem'] = _snap(d2)
    ob['src_after'] = dict(val=O.snap(src.val), status=_st(src), fmt=C.fmt_of(src))
    return ob


def post(cfg, inp, ob):
    (ss, sn, sf), (ds, dn, df) = cfg['src'], cfg['dst']
    r, o = cfg['rounding'], cfg['overflow']
    shape = list(cfg['shape'])
    ncell = C.size_of(shape) if shape else 1
    codes = [inp['c%d' % i] for i in range(ncell)]
    want = [SP.Q((c, -sf), ds, dn, df, r, o) for c in codes]
    fl = [SP.flags((c, -sf), ds, dn, df, r, o) for c in codes]
    ovf, unf = SP.OR(*[x[0] for x in fl]), SP.OR(*[x[1] for x in fl])
    out = [('source_unchanged', SP.AND(ob['src_after']['fmt'] == [ss, sn, sf],
                                       not any(ob['src_after']['status'].values()),
                                       *[T.icmp(u, v, '==') for u, v in zip(O.cells(ob['src_after']['val']), codes)]))]
    for route in ROUTES:
        z = ob[route]
        out.append((route + ':format', z['fmt'] == [ds, dn, df]))
        if route == 'setitem':
            got = O.cells(z['val'])
            out.append((route + ':code', SP.AND(T.icmp(got[0], 0, '=='), T.icmp(got[1], want[0], '=='))))
            continue
        out.append((route + ':shape', z['shape'] == shape))
        got = O.cells(z['val'])
        if len(got) != ncell:
            out.append((route + ':n_cells', False))
            continue
        out.append((route + ':code', SP.AND(*[T.icmp(g, w, '==') for g, w in zip(got, want)])))
        out.append((route + ':overflow_flag', SP.IFF(z['status']['overflow'], ovf)))
        out.append((route + ':underflow_flag', SP.IFF(z['status']['underflow'], unf)))
    return out


CANARIES = [
    dict(name='resize re-stores the old code without rescaling by the fraction-length difference',
         mutate={'objects.py': [('self.set_val(_old_val * 2**(self.n_frac - _old_n_frac), raw=True)', 'self.set_val(_old_val * 2**(self.n_frac - self.n_frac), raw=True)')]},
         cfgs=[dict(src=[True, 8, 2], dst=[True, 8, 4], rounding='trunc', overflow='saturate', shape=[])]),
    dict(name='Fxp-from-Fxp conversion scales with the operands swapped',
         mutate={'objects.py': [('val = val.val * 2**(self.n_frac - val.n_frac)', 'val = val.val * 2**(val.n_frac - self.n_frac)')]},
         cfgs=[dict(src=[True, 8, 2], dst=[True, 8, 4], rounding='trunc', overflow='saturate', shape=[])]),
]
