"""C06 -- size inference picks the smallest format that holds the values exactly: fewest fraction bits that make all values exact, then
fewest word bits with a non-negative integer length; only n_word given -> largest fraction length that leaves room for the integer part
(capped at the exact one); only n_frac given -> minimal word; n_int with one other size -> the third follows arithmetically; an inferred
word never exceeds 64, beyond which the value is quantised with error below one LSB and flagged inexact."""
import random
from sx import spec as SP, obs as O, term as T
from . import common as C

ID = 'C06'
MAX_PATHS = 60000
ENCODED = ['Fxp.__init__', 'Fxp._init_size', 'Fxp.set_best_sizes', 'Fxp.resize', 'Fxp.set_val', 'Fxp._format_inupt_val', 'Fxp._round',
           'Fxp._overflow_action', 'utils.clip']
ASSUMPTIONS = [
    'inputs are dyadic rationals v = k / 2^f0 (float carrier; Python int carrier for f0 = 0).  Quick: f0 <= 4 with |k| < 2^12, and f0 in {9, 14, 20} with '
    '|k| < 2^(f0+6); thorough: every f0 in 0..20 with |k| < 2^40 (the whole domain the property states) when no size is given, |k| < 2^(N-3) with n_word = N '
    'given, |k| < 2^min(40, f0+12) with n_frac given; two-cell arrays with f0 <= 2 (quick) / f0 in {0..3, 8, 20} (thorough) and |k| < 2^8 .. 2^10',
    'the statement `if r_i >= 0.0: r = r_i` of the fraction search is if-converted by the loader (sx/loader.py, _IfConvRewriter: a conditional assignment '
    'of a bare name becomes an if-then-else term when both sides of the test are feasible), so the search costs one path per trailing-zero count instead '
    'of one per fractional bit pattern; with SX_NO_IFCONV=1 the statement forks as written',
    'unsigned inference is driven with non-negative values only (a negative value has no exact unsigned representation)',
    'minimality is stated without a search: the inferred fraction length is 0 or the stored code is odd; the integer length is 0 or the code does not fit '
    'the same format with one word bit fewer',
    'cap case: v = k * 2^-f with f in {64, 70, 80}, the upper bits of k concrete and 6 free low bits',
]


def configs(tier, seed):
    rng = random.Random(seed)
    out = []
    quick = tier == 'quick'
    f0s = (0, 1, 2, 3, 4, 9, 14, 20) if quick else tuple(range(21))
    for f0 in f0s:
        deep = f0 > 4
        kb = (12 if not deep else f0 + 6) if quick else 40
        for signed in (None, True, False):
            if quick and deep and signed is False and f0 != 20:
                continue
            out.append(dict(part='none', signed=signed, f0=f0, kbits=kb, carrier='float', cells=1))
            if f0 == 0:
                out.append(dict(part='none', signed=signed, f0=0, kbits=kb, carrier='int', cells=1))
            if quick:
                Ns = (8, 16) if not deep else ((24,) if f0 == 20 and signed is not False else ())
                Fgs = (0, 2) if not deep else (((rng.choice((3, 11, 20)),) if signed is not False else ()))
            else:
                Ns = (4, 8, 16, 24, 48)
                Fgs = (0, 2, 8, 20)
            for N in Ns:
                # the value may need up to three integer bits more than the word offers (the fraction is then capped and the value may saturate)
                out.append(dict(part='n_word', signed=signed, f0=f0, kbits=min(kb, N - 3) if f0 <= 8 else min(40, N + 3), carrier='float', cells=1, N=N))
            for Fg in Fgs:
                out.append(dict(part='n_frac', signed=signed, f0=f0, kbits=min(kb, f0 + 12), carrier='float', cells=1, Fg=Fg))
    # the value supplied as a fixed-point object that sits in a format larger than the minimal one (and has a past)
    for f0 in (0, 1, 2, 3):
        for signed in (None, True, False):
            out.append(dict(part='none', signed=signed, f0=f0, kbits=8, carrier='fxp', cells=1))
            out.append(dict(part='n_word', signed=signed, f0=f0, kbits=5, carrier='fxp', cells=1, N=12))
            out.append(dict(part='n_frac', signed=signed, f0=f0, kbits=8, carrier='fxp', cells=1, Fg=rng.choice((0, 2))))
    for f0 in ((0, 1, 2) if quick else (0, 1, 2, 3, 8, 20)):
        for signed in (None, False):
            out.append(dict(part='none', signed=signed, f0=f0, kbits=8 if quick else (10 if f0 <= 3 else (9 if f0 == 8 else 6)), carrier='float', cells=2))
    for signed in (True, False, None):
        for (ni, other, val) in (('n_word', 12, 3), ('n_frac', 5, 3), ('n_word', 8, 0), ('n_frac', 0, 7)):
            out.append(dict(part='n_int', signed=signed, f0=2, kbits=6, carrier='float', cells=1, n_int=val, other=ni, other_val=other))
    for f in (64, 70, 80):
        for signed in (True, False):
            out.append(dict(part='cap', signed=signed, f=f, hi_bits=rng.getrandbits(20) | 1, shift=rng.choice((0, 3, 30))))
    return out


def cost(cfg):
    return (cfg.get('f0', 3) + 2) ** cfg.get('cells', 1) * cfg.get('kbits', 8) ** cfg.get('cells', 1)


def inputs(cfg):
    if cfg['part'] == 'cap':
        return {'j': dict(kind='int', lo=0, hi=63)}
    m = (1 << cfg['kbits']) - 1
    lo = 0 if cfg['signed'] is False else -m
    sp = {}
    for i in range(cfg['cells']):
        if cfg['carrier'] in ('int', 'fxp'):
            sp['k%d' % i] = dict(kind='int', lo=lo, hi=m)
        else:
            sp['k%d' % i] = dict(kind='float', lo=lo, hi=m, exp=-cfg['f0'])
    return sp


def _snap(x):
    return dict(val=O.snap(x.val), fmt=C.fmt_of(x), n_int=C.cint(x.n_int), status={k: bool(v) for k, v in x.status.items()}, dtype=x.dtype)


def run(F, cfg, inp):
    kw = {} if cfg['signed'] is None else dict(signed=cfg['signed'])
    p = cfg['part']
    if p == 'cap':
        # v = (hi_bits * 64 + j) * 2^-f * 2^shift : more fractional bits than any 64-bit word can hold
        j = inp['j']
        base = cfg['hi_bits'] * 64
        if F.symbolic and T.is_sym(j):
            v = T.mkf(T.iadd(j, base), cfg['shift'] - cfg['f'])
        else:
            v = float(base + j) * 2.0 ** (cfg['shift'] - cfg['f'])
        return _snap(F.Fxp(v, **kw))
    vals = [inp['k%d' % i] for i in range(cfg['cells'])]
    v = vals[0] if cfg['cells'] == 1 else list(vals)
    if cfg['carrier'] == 'fxp':
        # k * 2^-f0 held as the code k*4 of a 24-bit object with f0+2 fraction bits that was re-formatted once
        src = F.Fxp(None, cfg['signed'] is not False, 20, cfg['f0'] + 1)
        src.resize(n_word=24, n_frac=cfg['f0'] + 2)
        src.set_val(T.ishl(vals[0], 2) if T.is_sym(vals[0]) else vals[0] * 4, raw=True)
        src.reset()
        v = src
    if p == 'none':
        x = F.Fxp(v, **kw)
    elif p == 'n_word':
        x = F.Fxp(v, n_word=cfg['N'], **kw)
    elif p == 'n_frac':
        x = F.Fxp(v, n_frac=cfg['Fg'], **kw)
    else:
        x = F.Fxp(v, n_int=cfg['n_int'], **{cfg['other']: cfg['other_val']}, **kw)
    return _snap(x)


def _fits(code, signed, n_word):
    if n_word < 1:
        return T.icmp(code, 0, '==')
    lo, hi = SP.limits(signed, n_word)
    return SP.AND(T.icmp(code, lo, '>='), T.icmp(code, hi, '<='))


def _value_fits_int_bits(v, signed, m):
    """the exact input value lies in the range an integer part of m bits offers: [-2^m, 2^m) signed, [0, 2^m) unsigned"""
    d = SP.dy(v)
    if m < 0:
        return False
    up = SP.dy_cmp(d, (1 << m, 0), '<')
    lo = SP.dy_cmp(d, (-(1 << m), 0), '>=') if signed else SP.dy_cmp(d, (0, 0), '>=')
    return SP.AND(up, lo)


def post(cfg, inp, ob):
    s, n, f = ob['fmt']
    st = ob['status']
    codes = O.cells(ob['val'])
    want_signed = True if cfg['signed'] is None else cfg['signed']
    out = [('signedness', s == want_signed), ('n_int_consistent', ob['n_int'] == n - f - int(s)),
           ('dtype_string', ob['dtype'] == C.fmt_str(s, n, f)), ('word_at_most_64', n <= 64)]
    p = cfg['part']
    if p == 'cap':
        j = inp['j']
        vnum, vexp = T.iadd(j, cfg['hi_bits'] * 64), cfg['shift'] - cfg['f']
        code = codes[0]
        # |code * 2^-f - v| < 2^-f on the common grid 2^vexp (vexp <= -f here)
        g = -f - vexp
        diff = T.isub(T.ishl(code, g), vnum) if g >= 0 else T.isub(code, T.ishl(vnum, -g))
        lsb = (1 << g) if g >= 0 else 1
        exact = T.icmp(diff, 0, '==')
        out.append(('error_below_one_lsb', T.icmp(T.iabs(diff), lsb, '<')))
        out.append(('inexact_result_is_flagged', SP.IMPLIES(SP.NOT(exact), st['inaccuracy'])))
        out.append(('no_overflow', not (st['overflow'] or st['underflow'])))
        return out
    vals = [inp['k%d' % i] for i in range(cfg['cells'])]
    if cfg['carrier'] == 'fxp':
        vals = [(vals[0], -cfg['f0'])]
    out.append(('n_cells', len(codes) == len(vals)))
    exact = SP.AND(*[SP.dy_eq((c, -f), SP.dy(v)) for c, v in zip(codes, vals)])
    n_int = n - f - int(s)
    fits_smaller = SP.AND(*[_fits(c, s, n - 1) for c in codes])
    some_odd = SP.OR(*[T.icmp(T.imod_pow2(c, 1), 1, '==') for c in codes])
    if p != 'n_int':            # (with n_int and one other size given the format is imposed: the value may overflow it)
        out.append(('no_overflow', not (st['overflow'] or st['underflow'])))
    if p == 'none':
        out += [('exact', exact), ('no_inaccuracy_flag', not st['inaccuracy']),
                ('fraction_length_non_negative', f >= 0),
                ('fewest_fraction_bits', True if f == 0 else some_odd),
                ('integer_length_non_negative', n_int >= 0),
                ('fewest_word_bits', True if n_int == 0 else SP.NOT(fits_smaller))]
        return out
    if p == 'n_word':
        out.append(('word_as_given', n == cfg['N']))
        out.append(('integer_length_non_negative', n_int >= 0))
        out.append(('inaccuracy_flag_iff_inexact', SP.IFF(st['inaccuracy'], SP.NOT(exact))))
        # either the exact (minimal) fraction length, or the cap: no integer bit to spare
        # "the largest fraction length that still leaves room for the integer part": one integer bit fewer would not hold the input values
        # (stated on the inputs: the truncated code of e.g. -(8 + 2^-18) in s24/19 is -8 * 2^19, which by itself would fit 23 bits)
        tight = True if n_int == 0 else SP.NOT(SP.AND(*[_value_fits_int_bits(v, s, n_int - 1) for v in vals]))
        out.append(('fraction_length_exact_or_capped_by_integer_part',
                    SP.OR(SP.AND(exact, True if f <= 0 else some_odd), SP.AND(SP.NOT(exact), tight))))
        # stored value is the truncation (default rounding) of the input
        for i, (c, v) in enumerate(zip(codes, vals)):
            out.append(('code_is_quantised_input_%d' % i, T.icmp(c, SP.Q(v, s, n, f, 'trunc', 'saturate'), '==')))
        return out
    if p == 'n_frac':
        out.append(('fraction_as_given', f == cfg['Fg']))
        out.append(('integer_length_non_negative', n_int >= 0))
        out.append(('inaccuracy_flag_iff_inexact', SP.IFF(st['inaccuracy'], SP.NOT(exact))))
        out.append(('fewest_word_bits', True if n_int == 0 else SP.NOT(fits_smaller)))
        for i, (c, v) in enumerate(zip(codes, vals)):
            out.append(('code_is_quantised_input_%d' % i, T.icmp(c, SP.Q(v, s, n, f, 'trunc', 'saturate'), '==')))
        return out
    # n_int with one other size
    ni = cfg['n_int']
    if cfg['other'] == 'n_word':
        out.append(('third_size_follows', (n, f) == (cfg['other_val'], cfg['other_val'] - ni - int(s))))
    else:
        out.append(('third_size_follows', (n, f) == (ni + cfg['other_val'] + int(s), cfg['other_val'])))
    for i, (c, v) in enumerate(zip(codes, vals)):
        out.append(('code_is_quantised_input_%d' % i, T.icmp(c, SP.Q(v, s, n, f, 'trunc', 'saturate'), '==')))
    return out


CANARIES = [
    dict(name='inferred integer length one bit short',
         mutate={'objects.py': [('            n_int = max(n_int - n_frac, 0)\n', '            n_int = max(n_int - n_frac - 1, 0)\n')]},
         cfgs=[dict(part='none', signed=True, f0=1, kbits=6, carrier='float', cells=1)]),
    dict(name='fraction search accepts the first error below 2^-2',
         mutate={'objects.py': [('                    while e > max_error and n_frac <= max_n_frac and r > 0.0:', '                    while e > max(max_error, 0.2) and n_frac <= max_n_frac and r > 0.0:')]},
         cfgs=[dict(part='none', signed=True, f0=4, kbits=6, carrier='float', cells=1)]),
]
