"""C14 -- shifts scale by powers of two: lossless in expand mode, arithmetic otherwise."""
import random
from sx import spec as SP, obs as O, term as T
from . import common as C

ID = 'C14'
AGEABLE = True        # a quarter of the configurations build their operands as objects with a past (props/common.py)
ENCODED = ['Fxp.__lshift__', 'Fxp.__rshift__', 'utils.min_pow2', 'Fxp.__init__', 'Fxp.set_val', 'Fxp.deepcopy']
ASSUMPTIONS = ['operand holds an arbitrary in-range code; shift counts are concrete (0 .. n_word+3, n_word+n <= 62)',
               'ceil(log2(m + 0.5)) is resolved to the exact bit-length function (glibc agrees for m < 2^45; checked at every replayed witness)',
               'in trunc/keep mode an unrepresentable x<<n may be clamped or wrapped (the property allows either)']


def configs(tier, seed):
    rng = random.Random(seed)
    nws = (1, 2, 3, 4, 5, 6, 8, 16, 32) if tier == 'quick' else tuple(range(1, 33))
    out = []
    for n in nws:
        for s in (True, False):
            for f in sorted(set([0, n // 2])):
                counts = [k for k in range(0, n + 4) if n + k <= 62]
                if tier == 'quick' and len(counts) > 6:
                    counts = [0, 1, n - 1, n, n + 3] + C.pick(counts, 2, rng)
                    counts = sorted(set(k for k in counts if 0 <= k and n + k <= 62))
                for k in counts:
                    for mode in ('expand', 'trunc', 'keep'):
                        if mode == 'keep' and tier == 'quick' and rng.random() < 0.5:
                            continue
                        for d in ('l', 'r'):
                            out.append(dict(signed=s, n_word=n, n_frac=f, mode=mode, dir=d, k=k, shape=[]))
    for i in range(24 if tier == 'quick' else 240):
        n = rng.choice((2, 3, 5, 8))
        c = dict(signed=rng.choice((True, False)), n_word=n, n_frac=rng.choice((0, n // 2)), mode=rng.choice(('expand', 'trunc')),
                 dir=rng.choice('lr'), k=rng.randrange(0, n + 3), shape=[2])
        if i % 2:
            c['age'] = 'inplace'          # the array was shifted before and then received its codes by in-place element writes
        out.append(c)
    return out


def cost(cfg):
    return cfg['n_word'] * (4 if cfg['shape'] else 1) * (3 if cfg['mode'] == 'expand' else 1)


def inputs(cfg):
    lo, hi = SP.limits(cfg['signed'], cfg['n_word'])
    return {'a%d' % i: dict(kind='int', lo=lo, hi=hi) for i in range(2 if cfg['shape'] else 1)}


def run(F, cfg, inp):
    s, n, f = cfg['signed'], cfg['n_word'], cfg['n_frac']
    shape = cfg['shape']
    vals = [inp['a%d' % i] for i in range(2 if shape else 1)]
    x = C.raw_fxp(F, s, n, f, vals if shape else vals[0], tuple(shape) if shape else None, shifting=cfg['mode'])
    z = (x << cfg['k']) if cfg['dir'] == 'l' else (x >> cfg['k'])
    return dict(z=O.snap(z.val), fmt=C.fmt_of(z), status={k: bool(v) for k, v in z.status.items() if k != 'extended_prec'},
                x=O.snap(x.val), xfmt=C.fmt_of(x))


def post(cfg, inp, ob):
    s, n, f, k = cfg['signed'], cfg['n_word'], cfg['n_frac'], cfg['k']
    a = [inp['a%d' % i] for i in range(2 if cfg['shape'] else 1)]
    zs = O.cells(ob['z'])
    zs_, zn, zf = ob['fmt']
    out = [('operand_unchanged', SP.AND(ob['xfmt'] == [s, n, f], *[T.icmp(u, v, '==') for u, v in zip(O.cells(ob['x']), a)]))]
    lo, hi = SP.limits(zs_, zn)
    out.append(('result_codes_in_range', SP.AND(*[SP.AND(T.icmp(z, lo, '>='), T.icmp(z, hi, '<=')) for z in zs])))
    st = ob['status']
    if cfg['mode'] == 'expand':
        e = k if cfg['dir'] == 'l' else -k
        for i, z in enumerate(zs):
            out.append(('value_scaled_exactly_%d' % i, SP.dy_eq((z, -zf), (a[i], -f + e))))
        out.append(('no_flag', not (st['overflow'] or st['underflow'] or st['inaccuracy'])))
        out.append(('signedness_kept', zs_ == s))
        return out
    out.append(('format_unchanged', ob['fmt'] == [s, n, f]))
    for i, z in enumerate(zs):
        if cfg['dir'] == 'r':
            out.append(('arithmetic_right_shift_%d' % i, T.icmp(z, T.ishr(a[i], k), '==')))
        else:
            ex = T.ishl(a[i], k)
            inr = SP.AND(T.icmp(ex, lo, '>='), T.icmp(ex, hi, '<='))
            out.append(('left_shift_exact_when_representable_%d' % i, SP.IMPLIES(inr, T.icmp(z, ex, '=='))))
            out.append(('left_shift_clamped_or_wrapped_%d' % i, SP.IMPLIES(SP.NOT(inr), SP.OR(T.icmp(z, SP.OVERFLOW(ex, s, n, 'saturate'), '=='),
                                                                                         T.icmp(z, SP.OVERFLOW(ex, s, n, 'wrap'), '==')))))
    if k == 0:
        out.append(('shift_by_zero_identity', SP.AND(*[T.icmp(z, v, '==') for z, v in zip(zs, a)])))
    return out


CANARIES = [
    dict(name='expand-mode left shift grows the word by one bit too few',
         mutate={'objects.py': [("+ self.signed + n)\n        else:\n            n_word = self.n_word", "+ self.signed + n - 1)\n        else:\n            n_word = self.n_word")]},
         cfgs=[dict(signed=True, n_word=5, n_frac=0, mode='expand', dir='l', k=2, shape=[])]),
    dict(name='right shift in trunc mode shifts by one too many',
         mutate={'objects.py': [('y.val = y.val >> np.array(n, dtype=y.val.dtype)', 'y.val = y.val >> np.array(n + (1 if n > 2 else 0), dtype=y.val.dtype)')]},
         cfgs=[dict(signed=True, n_word=8, n_frac=4, mode='trunc', dir='r', k=3, shape=[])]),
]
