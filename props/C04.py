"""C04 -- status flags and callbacks report exactly what happened, are sticky, reset() clears them, arithmetic propagates inaccuracy."""
import random
from sx import spec as SP, obs as O, term as T
from . import common as C

ID = 'C04'
ENCODED = ['Fxp._overflow_action', 'Fxp.set_val', 'Fxp._run_callbacks', 'Fxp.reset', 'Fxp._format_inupt_val',
           'functions._function_over_one_var', 'functions._function_over_two_vars', 'callbacks.Callback']
ASSUMPTIONS = [
    'the arbitrary prior flag state of the inductive step is installed by assigning the three booleans of x.status directly',
    'float inputs are dyadic rationals on the grid 2^-(n_frac+64)',
    'callbacks are counted by a recording subclass of the real callbacks.Callback',
]
OPS2 = ('add', 'sub', 'mul', 'truediv', 'floordiv', 'mod')


def _cfg(part, s, n, f, r, o, carrier='pyfloat', **kw):
    d = dict(part=part, signed=s, n_word=n, n_frac=f, rounding=r, overflow=o, carrier=carrier)
    d.update(kw)
    return d


def configs(tier, seed):
    rng = random.Random(seed)
    fm = C.formats_q() if tier == 'quick' else C.formats_core()
    if tier == 'quick':
        fm = fm + [f for f in C.pick(C.formats_core(), 24, rng) if f not in fm]
    out = []
    for (s, n, f) in fm:
        for (r, o) in C.modes():
            pre = rng.randrange(8)
            out.append(_cfg('write', s, n, f, r, o, 'pyfloat', pre=pre))
            out.append(_cfg('write', s, n, f, r, o, 'pyint', pre=(pre + 3) % 8))
    small = [(True, 8, 2), (False, 8, 3), (True, 5, 0), (False, 3, 5), (True, 16, -3), (True, 13, 14), (True, 32, 16), (False, 52, 52)]
    if tier == 'thorough':
        small += C.pick(C.formats_core(), 60, rng)
    for (s, n, f) in small:
        for (r, o) in (C.modes() if tier == 'thorough' else C.pick(C.modes(), 4, rng)):
            for pre in (range(8) if tier == 'thorough' else (0, 7, rng.randrange(1, 7))):
                out.append(_cfg('write', s, n, f, r, o, 'pyfloat', pre=pre, entry=rng.choice(('call', 'setitem', 'set_val'))))
            out.append(_cfg('write', s, n, f, r, o, rng.choice(('pyfloat', 'pyint')), pre=rng.randrange(1, 8), entry=rng.choice(('ctor_like', 'ctor_template'))))
            out.append(_cfg('write', s, n, f, r, o, 'fxp', pre=rng.randrange(8), entry=rng.choice(('set_val', 'call', 'setitem', 'equal'))))
            out.append(_cfg('write', s, n, f, r, o, 'arr2', pre=0))
            out.append(_cfg('write', s, n, f, r, o, 'arr3int', pre=rng.randrange(8)))
            out.append(_cfg('reset', s, n, f, r, o, 'pyfloat', pre=rng.randrange(8)))
    # propagation of the inaccuracy flag through arithmetic and unary functions
    props = [(True, 8, 2, False, 6, 3), (False, 5, 1, False, 5, 4), (True, 6, 0, True, 4, 4)]
    if tier == 'thorough':
        props += [(True, 12, 6, True, 9, 2), (False, 10, 10, True, 7, 0), (True, 16, 8, False, 16, 8)]
    for (s1, n1, f1, s2, n2, f2) in props:
        # (unary minus and shifts build their result without the function wrappers and do not propagate the flag;
        #  the property anchors propagation in the function wrappers, so they are not part of the claim -- DESIGN.md, C04)
        for op in OPS2 + ('sum', 'max', 'cumsum'):
            for fl in (0, 1, 2, 3):
                out.append(dict(part='propagate', op=op, signed=s1, n_word=n1, n_frac=f1, signed2=s2, n_word2=n2, n_frac2=f2, flags=fl,
                                rounding='trunc', overflow='saturate'))
                if op in ('add', 'sub', 'mul') and fl:
                    # the same through a caller-supplied destination (out=) and an out_like template, wide enough to hold the result exactly
                    for tgt in ('out', 'out_like', 'op_out'):
                        out.append(dict(part='propagate', op=op, signed=s1, n_word=n1, n_frac=f1, signed2=s2, n_word2=n2, n_frac2=f2, flags=fl,
                                        rounding='trunc', overflow='saturate', target=tgt))
    # stickiness through operations that are neither a write nor reset(): a raised flag must survive them
    for (s, n, f) in small[:8]:
        for step in ('resize_wider', 'resize_same', 'resize_dtype', 'config_change', 'read', 'arith', 'index', 'copy', 'like_template', 'bitwise', 'shift'):
            out.append(_cfg('sticky', s, n, f, 'trunc', 'saturate', 'code', pre=rng.randrange(1, 8), step=step))
    return out


def cost(cfg):
    return {'arr3int': 8, 'arr2': 20}.get(cfg.get('carrier'), 1)


def _ncells(cfg):
    return {'arr2': 2, 'arr3int': 3}.get(cfg['carrier'], 1)


def inputs(cfg):
    s, n, f = cfg['signed'], cfg['n_word'], cfg['n_frac']
    if cfg['part'] == 'sticky':
        lo, hi = SP.limits(s, n)
        return {'a': dict(kind='int', lo=lo, hi=hi)}
    if cfg['part'] == 'propagate':
        lo, hi = SP.limits(s, n)
        lo2, hi2 = SP.limits(cfg['signed2'], cfg['n_word2'])
        return {'a': dict(kind='int', lo=lo, hi=hi), 'b': dict(kind='int', lo=lo2, hi=hi2)}
    sp = {}
    if cfg['carrier'] == 'fxp':
        lo, hi = SP.limits(True, min(n + 4, 40))
        return {'v0': dict(kind='int', lo=lo, hi=hi)}
    for i in range(_ncells(cfg)):
        if cfg['carrier'] in ('pyint', 'arr3int'):
            b = min(53, 62 - f)
            m = (1 << b) - 1 if b > 0 else 0
            sp['v%d' % i] = dict(kind='int', lo=-m, hi=m)
        else:
            exp = -(f + 64)
            b = min(53, 62 - f) - exp
            m = (1 << max(b, 0)) - 1
            sp['v%d' % i] = dict(kind='float', lo=-m, hi=m, exp=exp)
    return sp


def assume(cfg, inp):
    if cfg['part'] == 'propagate' and cfg['op'] in ('truediv', 'floordiv', 'mod'):
        return T.icmp(inp['b'], 0, '!=')
    return True


def _recorder(F):
    class Rec(F.callbacks.Callback):
        def __init__(self):
            self.n = dict(on_value_change=0, on_status_overflow=0, on_status_underflow=0, on_status_inaccuracy=0)

        def on_value_change(self, fxp_object, logs=None):
            self.n['on_value_change'] += 1

        def on_status_overflow(self, fxp_object, logs=None):
            self.n['on_status_overflow'] += 1

        def on_status_underflow(self, fxp_object, logs=None):
            self.n['on_status_underflow'] += 1

        def on_status_inaccuracy(self, fxp_object, logs=None):
            self.n['on_status_inaccuracy'] += 1
    return Rec()


def _st(x):
    return {k: bool(x.status[k]) for k in ('overflow', 'underflow', 'inaccuracy')}


def run(F, cfg, inp):
    s, n, f = cfg['signed'], cfg['n_word'], cfg['n_frac']
    if cfg['part'] == 'propagate':
        x = F.Fxp(None, s, n, f)
        x.set_val(inp['a'], raw=True)
        y = F.Fxp(None, cfg['signed2'], cfg['n_word2'], cfg['n_frac2'])
        y.set_val(inp['b'], raw=True)
        x.status['inaccuracy'] = bool(cfg['flags'] & 1)
        y.status['inaccuracy'] = bool(cfg['flags'] & 2)
        op = cfg['op']
        tgt = cfg.get('target')
        if tgt:
            t = F.Fxp(None, True, 40, 16)
            if tgt == 'out':
                z = getattr(F.pkg, op)(x, y, out=t)
            elif tgt == 'out_like':
                z = getattr(F.pkg, op)(x, y, out_like=t)
            else:
                x.config.op_out = t
                z = {'add': lambda: x + y, 'sub': lambda: x - y, 'mul': lambda: x * y}[op]()
        elif op in OPS2:
            z = getattr(F.pkg, op)(x, y)
        elif op == 'sum':
            z = F.np.sum(x)
        elif op == 'max':
            z = F.np.max(x)
        else:
            z = x.cumsum()
        return dict(z=_st(z), x=_st(x), y=_st(y))
    if cfg['part'] == 'sticky':
        x = F.Fxp([0, 0] if cfg['step'] == 'index' else None, s, n, f)
        x.set_val([inp['a'], 0] if cfg['step'] == 'index' else inp['a'], raw=True)
        pre = cfg['pre']
        x.status['overflow'], x.status['underflow'], x.status['inaccuracy'] = bool(pre & 1), bool(pre & 2), bool(pre & 4)
        st = cfg['step']
        if st == 'resize_wider':
            x.resize(n_word=n + 3, n_frac=f + 1)
        elif st == 'resize_same':
            x.resize(s, n, f)
        elif st == 'resize_dtype':
            x.resize(dtype=C.fmt_str(s, n + 2, f))
        elif st == 'config_change':
            x.config.rounding, x.config.overflow, x.config.op_sizing = 'ceil', 'wrap', 'same'
        elif st == 'read':
            x.get_val(), x.bin(), x.hex(), x.astype(float), x.raw(), x.get_status(), x.get_dtype('Q')
        elif st == 'arith':
            (x + x), (x * x), (-x), abs(x)
        elif st == 'index':
            x[0], x[1]
        elif st == 'copy':
            x.copy(), x.deepcopy()
        elif st == 'like_template':
            F.Fxp(None, like=x), x.like(F.Fxp(None, True, 20, 4))
        elif st == 'bitwise':
            (~x), (x & 3), (x | 1)
        else:
            (x << 1), (x >> 1)
        return dict(status=_st(x))
    rec = _recorder(F)
    ent = cfg.get('entry', 'set_val')
    nc = _ncells(cfg)
    vals = [inp['v%d' % i] for i in range(nc)]
    if nc > 1:
        v = C.mk_array(F, 'float64' if cfg['carrier'] == 'arr2' else 'int64', vals)
        x = F.Fxp([0] * nc, s, n, f, rounding=cfg['rounding'], overflow=cfg['overflow'])
    else:
        v = vals[0]
        if cfg['carrier'] == 'fxp':
            # the value arrives as a fixed-point object with three more fractional bits than the destination
            v = C.raw_fxp(F, True, min(n + 4, 40), f + 3, vals[0])
        x = F.Fxp([0, 0] if ent == 'setitem' else None, s, n, f, rounding=cfg['rounding'], overflow=cfg['overflow'])
    keys_before = sorted(x.status)
    pre = cfg['pre']
    x.status['overflow'], x.status['underflow'], x.status['inaccuracy'] = bool(pre & 1), bool(pre & 2), bool(pre & 4)
    if ent in ('ctor_like', 'ctor_template'):
        # a new object built next to a template that raised flags in its own past: the new object reports its own write only
        t = x
        x = F.Fxp(v, like=t) if ent == 'ctor_like' else F.Fxp(v, template=t)
        return dict(status=_st(x), template=_st(t), fmt=C.fmt_of(x))
    x.callbacks.append(rec)
    if ent == 'call':
        x(v)
    elif ent == 'setitem':
        x[1] = v
    elif ent == 'equal':
        x.equal(v)
    else:
        x.set_val(v)
    ob = dict(status=_st(x), calls=dict(rec.n))
    if cfg['part'] == 'reset':
        x.reset()
        ob['after_reset'] = {k: (bool(x.status[k]) if k in x.status else 'MISSING') for k in keys_before}
        # a raised flag can be raised again after the reset
        x.set_val(v)
        ob['again'] = _st(x)
    return ob


def post(cfg, inp, ob):
    s, n, f, r, o = cfg['signed'], cfg['n_word'], cfg['n_frac'], cfg['rounding'], cfg['overflow']
    if cfg['part'] == 'propagate':
        fl = cfg['flags']
        out = [('operand_flags_unchanged', ob['x']['inaccuracy'] == bool(fl & 1) and ob['y']['inaccuracy'] == bool(fl & 2))]
        relevant = fl if cfg['op'] in OPS2 else (fl & 1)
        if relevant:
            out.append(('inaccuracy_propagated', ob['z']['inaccuracy'] is True))
        return out
    if cfg['part'] == 'sticky':
        pre, st = cfg['pre'], ob['status']
        return [('raised_flag_survives:' + k, (not bool(pre & b)) or st[k] is True) for k, b in (('overflow', 1), ('underflow', 2), ('inaccuracy', 4))]
    vals = [inp['v%d' % i] for i in range(_ncells(cfg))]
    if cfg['carrier'] == 'fxp':
        vals = [(vals[0], -(f + 3))]
    fl = [SP.flags(v, s, n, f, r, o) for v in vals]
    ovf, unf, inx = SP.OR(*[x[0] for x in fl]), SP.OR(*[x[1] for x in fl]), SP.OR(*[x[2] for x in fl])
    pre = cfg['pre']
    if cfg.get('entry') in ('ctor_like', 'ctor_template'):
        st, tp = ob['status'], ob['template']
        return [('format_of_template', ob['fmt'] == [s, n, f]),
                ('template_flags_unchanged', (tp['overflow'], tp['underflow'], tp['inaccuracy']) == (bool(pre & 1), bool(pre & 2), bool(pre & 4))),
                ('new_object_overflow_flag_iff', SP.IFF(st['overflow'], ovf)), ('new_object_underflow_flag_iff', SP.IFF(st['underflow'], unf)),
                ('new_object_inaccuracy_flag_iff', SP.IFF(st['inaccuracy'], inx))]
    st, calls = ob['status'], ob['calls']
    out = [('overflow_flag_iff', SP.IFF(st['overflow'], SP.OR(bool(pre & 1), ovf))),
           ('underflow_flag_iff', SP.IFF(st['underflow'], SP.OR(bool(pre & 2), unf))),
           ('inaccuracy_flag_iff', SP.IFF(st['inaccuracy'], SP.OR(bool(pre & 4), inx))),
           ('cb_overflow_once_iff', SP.IFF(calls['on_status_overflow'] == 1, ovf)), ('cb_overflow_at_most_once', calls['on_status_overflow'] <= 1),
           ('cb_underflow_once_iff', SP.IFF(calls['on_status_underflow'] == 1, unf)), ('cb_underflow_at_most_once', calls['on_status_underflow'] <= 1),
           ('cb_inaccuracy_once_iff', SP.IFF(calls['on_status_inaccuracy'] == 1, inx)), ('cb_inaccuracy_at_most_once', calls['on_status_inaccuracy'] <= 1),
           ('cb_value_change_once', calls['on_value_change'] == 1)]
    if cfg['part'] == 'reset':
        ar = ob['after_reset']
        out.append(('reset_clears_flags', ar['overflow'] is False and ar['underflow'] is False and ar['inaccuracy'] is False))
        out.append(('reset_keeps_status_record_usable', all(v != 'MISSING' for v in ar.values())))
        out.append(('flags_raise_again_after_reset', SP.AND(SP.IFF(ob['again']['overflow'], ovf), SP.IFF(ob['again']['underflow'], unf),
                                                          SP.IFF(ob['again']['inaccuracy'], inx))))
    return out


CANARIES = [
    dict(name='overflow detected with >= instead of > (spurious flag at the maximum code)',
         mutate={'objects.py': [('if np.any(new_val > val_max):', 'if np.any(new_val >= val_max):')]},
         cfgs=[_cfg('write', True, 8, 2, 'trunc', 'saturate', 'pyfloat', pre=0)]),
    dict(name='inaccuracy no longer propagated from the second operand',
         mutate={'functions.py': [("if x.status['inaccuracy'] or y.status['inaccuracy']:", "if x.status['inaccuracy']:")]},
         cfgs=[dict(part='propagate', op='add', signed=True, n_word=8, n_frac=2, signed2=False, n_word2=6, n_frac2=3, flags=2, rounding='trunc', overflow='saturate')]),
]
