"""C20 -- objects are independent and inputs are never mutated: objects obtained from the constructor (like=, template), deepcopy(),
like(), fxp_like, conversions, arithmetic, bitwise, shifts and NumPy functions share no mutable state (configuration, status record,
value buffer) with their operands / templates / input arrays; indexing is the documented exception (a view: x[i][j] = v writes through);
building an object from a list / tuple / array never modifies that container; an invalid configuration value is rejected.

Sharing is a heap fact, concrete on every path; what the solver quantifies over is the *values written* (and the characters of the
configuration strings): after deriving B from A, B is mutated with symbolic values and every observable of A must be unchanged for all
of them -- and the other way round."""
import random
from sx import spec as SP, obs as O, term as T, sstr as S
from . import common as C

ID = 'C20'
HANDLES_EXC = True
ENCODED = ['Fxp.__init__', 'Fxp.copy', 'Fxp.deepcopy', 'Fxp.like', 'functions.fxp_like', 'Fxp.resize', 'Fxp.__getitem__', 'Fxp.__setitem__',
           'Fxp.set_val', 'Fxp.reset', 'functions._function_over_one_var', 'functions._function_over_two_vars', 'Fxp.__neg__', 'Fxp.__lshift__',
           'Fxp.__rshift__', 'Fxp.__invert__', 'Fxp.__and__', 'functions.sum', 'functions.cumsum', 'utils.str2num', 'Config.overflow',
           'Config.rounding', 'Config.shifting', 'Config.op_sizing', 'Config.op_method', 'Config.update', 'Config.deepcopy']
ASSUMPTIONS = [
    'formats n_word <= 8, shapes () and (2,) ((2,2) for the indexing view); one derivation followed by one mutation, in both directions '
    '(mutate the derived object / mutate the origin), and derivation after derivation (depth 2) for like / deepcopy / constructor routes',
    'observables compared before and after: every code cell (as solver terms), the status record, the configuration fields, the format',
    'copy() is a shallow copy by name and is not among the routes the property lists',
    'containers: lists, tuples, nested lists and ndarrays of symbolic numbers, and lists of bin / hex strings rendered from symbolic codes',
    'configuration strings: a valid word with one or two characters replaced by symbolic lower-case letters; "accepted => it is one of the valid words"',
]
ROUTES = ('ctor_config', 'ctor_like', 'ctor_like_val', 'template', 'deepcopy', 'like', 'fxp_like', 'from_fxp', 'resize_copy', 'add', 'mul_const', 'neg', 'lshift',
          'rshift_keep', 'invert', 'and', 'xor', 'or', 'np_sum', 'np_cumsum', 'astype_roundtrip', 'equal', 'equal_wider', 'set_val_fxp', 'transpose', 'flatten', 'copy_method', 'T_prop')
MUTATIONS = ('write', 'write_flags', 'setitem', 'config', 'reset', 'resize')
FIELDS = {'overflow': ['saturate', 'wrap'], 'rounding': ['around', 'floor', 'ceil', 'fix', 'trunc'], 'shifting': ['expand', 'trunc', 'keep'],
          'op_sizing': ['optimal', 'same', 'fit', 'largest', 'smallest'], 'op_method': ['raw', 'repr'], 'op_input_size': ['same', 'best'],
          'const_op_sizing': ['optimal', 'same', 'fit', 'largest', 'smallest'], 'array_output_type': ['fxp', 'array'],
          'array_op_method': ['raw', 'repr'], 'dtype_notation': ['fxp', 'Q']}


def configs(tier, seed):
    rng = random.Random(seed)
    fm = [(s, n, f) for s in (True, False) for n in (2, 4, 5, 8) for f in (0, n // 2)]
    out = []
    for r in ROUTES:
        for m in MUTATIONS:
            for direction in ('mutate_derived', 'mutate_origin'):
                for shape in ([], [2]):
                    if m == 'setitem' and not shape:
                        continue
                    if tier == 'quick' and rng.random() < 0.5:
                        continue
                    out.append(dict(part='indep', route=r, mutation=m, direction=direction, x=list(rng.choice(fm)), shape=shape))
    for r1 in ('like', 'deepcopy', 'ctor_like', 'fxp_like'):
        for r2 in ('like', 'deepcopy', 'ctor_like', 'add'):
            out.append(dict(part='indep2', route=r1, route2=r2, mutation=rng.choice(('write_flags', 'config', 'reset')), x=list(rng.choice(fm)), shape=[]))
    for x in C.pick(fm, 4 if tier == 'quick' else len(fm), rng):
        out.append(dict(part='view', x=list(x)))
    for car in ('list', 'tuple', 'nested', 'ndarray', 'list_float', 'bin_list', 'hex_list', 'bin_nested', 'ndarray_raw', 'ndarray_raw_u', 'ndarray_2d'):
        for ent in ('ctor', 'set_val', 'call'):
            if ent == 'call' and car.startswith('ndarray_raw'):
                continue
            if tier == 'quick' and rng.random() < 0.4:
                continue
            out.append(dict(part='container', carrier=car, entry=ent, x=list(rng.choice([f for f in fm if f[1] >= 4]))))
    for field, words in FIELDS.items():
        for w in words:
            if len(w) < 3:
                continue
            pos = sorted(rng.sample(range(len(w)), 2))
            out.append(dict(part='config', field=field, word=w, pos=pos))
        out.append(dict(part='config_nonstring', field=field))
    return out


def cost(cfg):
    return {'config': 20, 'container': 5}.get(cfg['part'], 1)


def _n(shape):
    return 2 if shape else 1


def inputs(cfg):
    p = cfg['part']
    if p in ('config_nonstring',):
        return {}
    if p == 'config':
        w = cfg['word']
        alph = [c if i not in cfg['pos'] else 'abcdefghijklmnopqrstuvwxyzQ' for i, c in enumerate(w)]
        return {'s': dict(kind='str', len=len(w), alphabet=alph)}
    s, n, f = cfg['x']
    lo, hi = SP.limits(s, n)
    sp = {}
    if p == 'view':
        for i in range(4):
            sp['a%d' % i] = dict(kind='int', lo=lo, hi=hi)
        sp['v'] = dict(kind='float', lo=-(4 << (n + 2)), hi=(4 << (n + 2)), exp=-(f + 2))
        return sp
    if p == 'container':
        k = 4 if cfg['carrier'] in ('nested', 'bin_nested', 'ndarray_2d') else 2
        for i in range(k):
            if cfg['carrier'] == 'list_float':
                sp['a%d' % i] = dict(kind='float', lo=-(1 << (n + 3)), hi=(1 << (n + 3)), exp=-(f + 2))
            else:
                sp['a%d' % i] = dict(kind='int', lo=lo, hi=hi)
        return sp
    for i in range(_n(cfg['shape'])):
        sp['a%d' % i] = dict(kind='int', lo=lo, hi=hi)
        sp['b%d' % i] = dict(kind='int', lo=lo, hi=hi)
    # the value written by the mutation: over three times the range, so that flags can be raised
    sp['v'] = dict(kind='float', lo=-(4 << (n + 2)), hi=(4 << (n + 2)), exp=-(f + 2))
    return sp


CFG_FIELDS = ('overflow', 'rounding', 'shifting', 'op_method', 'op_input_size', 'op_sizing', 'const_op_sizing', 'array_output_type',
              'array_op_method', 'dtype_notation', 'op_out', 'op_out_like', 'n_word_max')


def observe(x):
    return dict(val=O.snap(x.val), status={k: bool(v) for k, v in x.status.items()}, fmt=C.fmt_of(x),
                config={k: getattr(x.config, k) for k in CFG_FIELDS}, dtype=x.dtype)


def derive(F, route, A, other):
    s, n, f = bool(A.signed), A.n_word, A.n_frac
    if route == 'ctor_config':
        return F.Fxp(A(), s, n, f, config=A.config)          # the configuration object of A handed to the constructor
    if route == 'ctor_like':
        return F.Fxp(None, like=A)
    if route == 'ctor_like_val':
        return F.Fxp(A, like=A)
    if route == 'template':
        return F.Fxp(A(), template=A)
    if route == 'deepcopy':
        return A.deepcopy()
    if route == 'like':
        return other.like(A)                   # A is the template: the result must not share A's configuration / status
    if route == 'fxp_like':
        return F.pkg.functions.fxp_like(A, other())
    if route == 'from_fxp':
        return F.Fxp(A, s, n, f)
    if route == 'resize_copy':
        B = A.deepcopy()
        B.resize(n_word=n + 2, n_frac=f + 1)
        return B
    if route == 'add':
        return A + other
    if route == 'mul_const':
        return A * 2
    if route == 'neg':
        return -A
    if route == 'lshift':
        return A << 1
    if route == 'rshift_keep':
        A.config.shifting = 'keep'
        return A >> 1
    if route == 'invert':
        return ~A
    if route == 'xor':
        return A ^ 5
    if route == 'or':
        return A | 1
    if route == 'and':
        return A & 3                          # (array & array is not supported by fxpmath: integer mask)
    if route == 'np_sum':
        return F.np.sum(A)
    if route == 'np_cumsum':
        return F.np.cumsum(A) if A.val.ndim else F.np.sum(A)
    if route == 'astype_roundtrip':
        return F.Fxp(A.get_val(), s, n, f)
    if route in ('equal', 'equal_wider', 'set_val_fxp'):
        # an existing object of the same / a wider format receives A's values
        B = F.Fxp(other.get_val(), s, n + (2 if route == 'equal_wider' else 0), f)
        if route == 'set_val_fxp':
            B.set_val(A)
        else:
            B.equal(A)
        return B
    if route == 'transpose':
        return F.np.transpose(A) if A.val.ndim else A.deepcopy()
    if route == 'reshape':
        return A.reshape((1, 2)).deepcopy() if A.val.ndim else A.deepcopy()
    if route == 'flatten':
        return A.flatten() if A.val.ndim else A.deepcopy()
    if route == 'T_prop':
        B = A.T                                # a view of the values (like indexing), but an object of its own
        return B.deepcopy() if A.val.ndim else B
    if route == 'copy_method':
        return A.deepcopy().like(A)
    raise ValueError(route)


def mutate(F, m, B, v):
    if m == 'write':
        B.set_val(v)
    elif m == 'write_flags':
        B.config.overflow = 'saturate'
        B.set_val(v)
        B.set_val(B.upper + 4 * abs(B.precision))       # certainly raises the overflow flag
    elif m == 'setitem':
        if len(B.val.shape) == 0:
            B.set_val(v)                     # (the derived object holds a single value: nothing to index)
        else:
            B[0] = v
    elif m == 'config':
        B.config.overflow = 'wrap' if B.config.overflow == 'saturate' else 'saturate'
        B.config.rounding = 'ceil' if B.config.rounding != 'ceil' else 'floor'
        B.config.op_sizing = 'same' if B.config.op_sizing != 'same' else 'largest'
        B.config.shifting = 'trunc' if B.config.shifting != 'trunc' else 'expand'
        B.config.dtype_notation = 'Q'
        B.rounding = 'around'
    elif m == 'reset':
        B.reset()
    elif m == 'resize':
        B.resize(n_word=B.n_word + 1, n_frac=B.n_frac + 1)
    else:
        raise ValueError(m)


def _mk(F, cfg, names):
    s, n, f = cfg['x']
    shape = tuple(cfg['shape'])
    return C.raw_fxp(F, s, n, f, names if shape else names[0], shape if shape else None, rounding='floor')


def run(F, cfg, inp):
    p = cfg['part']
    if p == 'config':
        x = F.Fxp(None, True, 8, 2)
        before = getattr(x.config, cfg['field'])
        try:
            setattr(x.config, cfg['field'], inp['s'])
        except ValueError:
            return dict(accepted=False, stored_kept=getattr(x.config, cfg['field']) == before)
        return dict(accepted=True, value=inp['s'])
    if p == 'config_nonstring':
        res = []
        for bad in (None, 5, 1.5, ['wrap'], b'wrap', True):
            x = F.Fxp(None, True, 8, 2)
            before = getattr(x.config, cfg['field'])
            try:
                setattr(x.config, cfg['field'], bad)
                res.append(('accepted', repr(bad)))
            except (ValueError, TypeError):
                res.append(('rejected', getattr(x.config, cfg['field']) == before))
            try:
                F.Fxp(None, True, 8, 2, **{cfg['field']: bad})
                res.append(('ctor_silently_ignored_or_accepted', repr(bad)))
            except (ValueError, TypeError):
                res.append(('rejected', True))
        return dict(results=res)
    s, n, f = cfg['x']
    if p == 'view':
        x = C.raw_fxp(F, s, n, f, [inp['a%d' % i] for i in range(4)], (2, 2), rounding='floor')
        row = x[0]
        row[1] = inp['v']
        el = x[1]
        before = O.snap(x.val)
        y = x[1][0]
        ob = dict(val=O.snap(x.val), row=O.snap(row.val), el=O.snap(el.val), y=O.snap(y.val), before=before,
                  row_status_shared=row.status is x.status, row_config_shared=row.config is x.config)
        # a view shows the values; what is done to the view *object* afterwards (re-formatting it, giving it a whole new value,
        # resetting it) is that object's own business: the parent keeps its format, so its codes must not change
        v2 = x[0]
        v2.resize(not s if n > 1 else s, n + 3, f + 2)
        v3 = x[1]
        v3.resize(s, n, f)                       # (same format: the codes are rewritten unchanged)
        v3.set_val(v3.val * 0 + 1, raw=True)
        v3.status['overflow'] = True
        ob['after_view_reformat'] = O.snap(x.val)
        ob['fmt_after'] = C.fmt_of(x)
        ob['status_after'] = {k: bool(w) for k, w in x.status.items()}
        return ob
    if p == 'container':
        car = cfg['carrier']
        a = [inp[k] for k in sorted(k for k in inp if k.startswith('a'))]
        src = C.raw_fxp(F, s, n, f, a[:2], (2,)) if car in ('bin_list', 'hex_list', 'bin_nested') else None
        if car == 'list':
            cont = [a[0], a[1]]
        elif car == 'list_float':
            cont = [a[0], a[1]]
        elif car == 'tuple':
            cont = (a[0], a[1])
        elif car == 'nested':
            cont = [[a[0], a[1]], [a[2], a[3]]]
        elif car == 'ndarray':
            cont = C.mk_array(F, 'int64', a[:2])
        elif car in ('ndarray_raw', 'ndarray_raw_u'):
            # in-range codes in an array that already has the storage dtype of the object (nothing to convert: tempting to keep as is)
            cont = C.mk_array(F, 'int64' if s else 'uint64', a[:2])
        elif car == 'ndarray_2d':
            cont = C.mk_array(F, 'int64', a[:4], (2, 2))
        elif car == 'bin_list':
            cont = list(src.bin(prefix='0b'))
        elif car == 'hex_list':
            cont = list(src.hex())
        else:
            b = list(src.bin(prefix='0b'))
            cont = [[b[0], b[1]], [b[1], b[0]]]
        snap0 = _csnap(cont)
        ids0 = _cids(cont)
        rawkw = dict(raw=True) if car.startswith('ndarray_raw') else {}
        if cfg['entry'] == 'ctor':
            x = F.Fxp(cont, s, n, f, **rawkw)
        elif cfg['entry'] == 'set_val':
            x = F.Fxp(None, s, n, f)
            x.set_val(cont, **rawkw)
        else:
            x = F.Fxp(None, s, n, f)
            x(cont)
        ob = dict(before=snap0, same_objects=ids0 == _cids(cont))
        if car.startswith('ndarray'):
            # aliasing in both directions: an indexed write into the object must not reach the caller's array, and the caller
            # changing its array afterwards must not change the object
            ix = (1, 0) if car == 'ndarray_2d' else 1
            x[ix] = 0
            ob['after_indexed_write'] = _csnap(cont)
            held = O.snap(x.val)
            cont[0 if car != 'ndarray_2d' else (0, 1)] = 1
            ob['object_before_container_write'], ob['object_after_container_write'] = held, O.snap(x.val)
            cont[0 if car != 'ndarray_2d' else (0, 1)] = a[0] if car != 'ndarray_2d' else a[1]
        x.set_val(x.val * 0, raw=True)                          # and a later write must not reach the container either
        ob.update(after=_csnap(cont), val=O.snap(x.val))
        return ob
    k = _n(cfg['shape'])
    A = _mk(F, cfg, [inp['a%d' % i] for i in range(k)])
    other = _mk(F, cfg, [inp['b%d' % i] for i in range(k)])
    if cfg.get('mutation') == 'reset':
        A.status['overflow'] = True                             # a flag raised earlier on the origin
        A.status['inaccuracy'] = True
    B = derive(F, cfg['route'], A, other)
    if p == 'indep2':
        B = derive(F, cfg['route2'], B, other)
    if not (hasattr(B, 'status') and hasattr(B, 'config')):
        return dict(not_fxp=type(B).__name__)
    tgt, obs = (B, A) if cfg.get('direction', 'mutate_derived') == 'mutate_derived' else (A, B)
    before = observe(obs)
    other_before = observe(other)
    mutate(F, cfg['mutation'], tgt, inp['v'])
    return dict(before=before, after=observe(obs), other_before=other_before, other_after=observe(other),
                distinct=(B is not A and B.config is not A.config and B.status is not A.status))


def _csnap(c):
    if isinstance(c, (list, tuple)):
        return [type(c).__name__] + [_csnap(e) for e in c]
    return O.snap(c)


def _cids(c):
    if isinstance(c, (list, tuple)):
        return [id(c)] + [_cids(e) for e in c]
    return id(c) if not isinstance(c, (int, float, str)) else None


def _same_obs(tag, b, a):
    out = [(tag + ':status_unchanged', b['status'] == a['status']), (tag + ':config_unchanged', b['config'] == a['config']),
           (tag + ':format_unchanged', b['fmt'] == a['fmt'] and b['dtype'] == a['dtype'])]
    cb, ca = O.cells(b['val']), O.cells(a['val'])
    out.append((tag + ':values_unchanged', SP.AND(len(cb) == len(ca), *[T.icmp(u, v, '==') for u, v in zip(cb, ca)])))
    return out


def _snap_eq(b, a):
    if isinstance(b, list) and isinstance(a, list):
        return SP.AND(len(b) == len(a), *[_snap_eq(u, v) for u, v in zip(b, a)])
    if isinstance(b, O.Arr) and isinstance(a, O.Arr):
        return SP.AND(b.dtype == a.dtype, b.shape == a.shape, *[_snap_eq(u, v) for u, v in zip(b.cells, a.cells)])
    if isinstance(b, (str, S.SStr)) or isinstance(a, (str, S.SStr)):
        e = (b == a)
        return e if isinstance(e, bool) else T.mk_bool(T.lift_bool(e)) if not isinstance(e, T.SBool) else e
    if isinstance(b, (T.SFloat, float)) or isinstance(a, (T.SFloat, float)):
        return SP.dy_eq(SP.dy(b), SP.dy(a))
    if T.is_sym(b) or T.is_sym(a) or isinstance(b, int):
        return T.icmp(b, a, '==')
    return b == a


def post(cfg, inp, ob):
    p = cfg['part']
    if '__exc__' in ob:
        return [('no_exception:' + ob['__exc__'], False)]
    if p == 'config':
        if not ob['accepted']:
            return [('rejected_value_not_stored', ob['stored_kept'] is True)]
        words = FIELDS[cfg['field']]
        alts = []
        for w in words:
            if len(w) == len(cfg['word']):
                e = (ob['value'] == w)
                alts.append(e if isinstance(e, (bool, T.SBool)) else T.mk_bool(T.lift_bool(e)))
        return [('accepted_only_if_valid_word', SP.OR(*alts) if alts else False)]
    if p == 'config_nonstring':
        return [('non_string_value_rejected_%d' % i, r[0] == 'rejected' and r[1] is True) for i, r in enumerate(ob['results'])]
    if p == 'view':
        s, n, f = cfg['x']
        want = SP.Q(inp['v'], s, n, f, 'floor', 'saturate')
        cells = O.cells(ob['val'])
        a = [inp['a%d' % i] for i in range(4)]
        return [('chained_indexed_assignment_writes_through', T.icmp(cells[1], want, '==')),
                ('other_cells_untouched', SP.AND(T.icmp(cells[0], a[0], '=='), T.icmp(cells[2], a[2], '=='), T.icmp(cells[3], a[3], '=='))),
                ('views_show_the_parent_values', SP.AND(T.icmp(O.cells(ob['row'])[1], want, '=='), T.icmp(O.cells(ob['el'])[0], a[2], '=='),
                                                        T.icmp(O.cells(ob['y'])[0], a[2], '=='))),
                ('view_does_not_share_status_or_config', not ob['row_status_shared'] and not ob['row_config_shared']),
                ('parent_unchanged_by_reformatting_or_rewriting_a_view_object',
                 SP.AND(ob['fmt_after'] == [s, n, f], not ob['status_after']['overflow'],
                        *[T.icmp(u, v, '==') for u, v in zip(O.cells(ob['after_view_reformat']), cells)]))]
    if p == 'container':
        out = [('container_contents_unchanged', _snap_eq(ob['before'], ob['after'])), ('container_elements_are_the_same_objects', ob['same_objects'] is True)]
        if 'after_indexed_write' in ob:
            out.append(('container_unchanged_by_an_indexed_write_into_the_object', _snap_eq(ob['before'], ob['after_indexed_write'])))
            out.append(('object_unchanged_by_a_later_write_into_the_container', _snap_eq(ob['object_before_container_write'], ob['object_after_container_write'])))
        return out
    if 'not_fxp' in ob:
        return [('derived_object_is_fxp', False)]
    out = [('distinct_objects', ob['distinct'] is True)]
    out += _same_obs('observed', ob['before'], ob['after'])
    out += _same_obs('bystander', ob['other_before'], ob['other_after'])
    return out


CANARIES = [
    dict(name='constructor with like= takes the template dictionary without copying it',
         mutate={'objects.py': [('            if isinstance(like, Fxp):\n                self.__dict__ = copy.deepcopy(like.__dict__)',
                                 '            if isinstance(like, Fxp):\n                self.__dict__ = copy.copy(like.__dict__)')]},
         cfgs=[dict(part='indep', route='ctor_like', mutation='config', direction='mutate_derived', x=[True, 8, 4], shape=[])]),
    dict(name='overflow setter accepts any string',
         mutate={'objects.py': [("        if isinstance(val, str) and val in self._overflow_list:\n            self._overflow = val", "        if isinstance(val, str):\n            self._overflow = val")]},
         cfgs=[dict(part='config', field='overflow', word='saturate', pos=[0, 3])]),
]
