"""C19 -- no silent wrap at the 64-bit machine boundary: + - * with optimal sizing stay exact when the exact result needs more than
53 / 64 bits (any operand word lengths and signedness mix), and storing a Python integer of any size follows C01 exactly."""
import random
from sx import spec as SP, obs as O, term as T
from . import common as C
from . import C01 as P01, C07 as P07

ID = 'C19'
ENCODED = ['functions.add', 'functions.sub', 'functions.mul', 'functions._function_over_two_vars', 'functions._get_sizing', 'Fxp.__add__',
           'Fxp.__sub__', 'Fxp.__mul__', 'Fxp.__init__', 'Fxp.set_val', 'Fxp._format_inupt_val', 'Fxp._round', 'Fxp._overflow_action',
           'utils.clip', 'utils.wrap', 'utils.int_array', 'Fxp.__call__', 'Fxp.__setitem__']
ASSUMPTIONS = [
    'arithmetic: operands are well-formed objects whose value buffer holds an arbitrary in-range code (pre-state constructed directly: '
    'Fxp(None, fmt) with .val set to the code in the dtype set_val chooses for that format); operand words '
    'on the grid {2,8,31,32,33,40,52,53,54,60,62,63,64,65,70}, n_frac in {0, n_word/2, n_word}, every signedness mix, results up to 256 bits',
    'the NumPy overlay reproduces int64 wrap-around, int64 (+) uint64 -> float64 with round-to-nearest-even, and OverflowError of Python '
    'integers outside the C long range, so that wrong results of the real code are found and replayed',
    'stores: scalar Python integers |v| < 2^1000 into formats of 1..52 bits with 0 <= n_frac <= n_word+3 through the four entry points',
    'symbolic x symbolic products are shared terms between the lifted code and the specification',
    'the inaccuracy flag is not part of the statement (C07 names overflow and underflow); it is reported in the evidence samples only',
]
NW = (2, 8, 31, 32, 33, 40, 52, 53, 54, 60, 62, 63, 64, 65, 70)
ENTRIES = ('ctor', 'call', 'set_val', 'setitem')
MAXBITS = 1000


def _fmts():
    return [(s, n, f) for s in (True, False) for n in NW for f in sorted(set([0, n // 2, n]))]


def configs(tier, seed):
    rng = random.Random(seed)
    out = []
    fm = _fmts()
    triples = [(op, x, y) for x in fm for y in fm for op in ('add', 'sub', 'mul')
               if P07.growth(op, x, y)[1] > 53 and P07.growth(op, x, y)[1] <= 256 and not (op == 'sub' and not x[0] and not y[0])]
    sel = C.pick(triples, 700 if tier == 'quick' else 9000, rng)
    for op, x, y in sel:
        out.append(dict(part='arith', op=op, x=list(x), y=list(y), route=rng.choice(('operator', 'function')), shape=[]))
    # unsigned - unsigned above 53 bits: the documented exception must still be the exact difference when it is non-negative
    uu = [(x, y) for x in fm for y in fm if not x[0] and not y[0] and P07.growth('sub', x, y)[1] > 53]
    for x, y in C.pick(uu, 40 if tier == 'quick' else len(uu), rng):
        out.append(dict(part='arith', op='sub', x=list(x), y=list(y), route='operator', shape=[]))
    # an operand that was already used in a wide operation and then updated in place (x[i] = ...) is used again
    for op, x, y in C.pick(triples, 60 if tier == 'quick' else 1500, rng):
        out.append(dict(part='arith_inplace', op=op, x=list(x), y=list(y), route=rng.choice(('operator', 'function')), shape=[2]))
    # big-integer stores
    stores = [(s, n, f) for s in (True, False) for n in range(1, 53) for f in range(0, n + 4)]
    for (s, n, f) in C.pick(stores, 150 if tier == 'quick' else 600, rng):
        for o in SP.OVERFLOWS:
            r = rng.choice(SP.ROUNDINGS)
            for e in (ENTRIES if tier == 'thorough' else (rng.choice(ENTRIES),)):
                out.append(dict(part='store', signed=s, n_word=n, n_frac=f, rounding=r, overflow=o, entry=e))
    return out


def cost(cfg):
    if cfg['part'] == 'store':
        return 30
    if cfg['part'] == 'arith_inplace':
        return 40
    return (cfg['x'][1] + cfg['y'][1]) / 10.0 * (3 if cfg['op'] == 'mul' else 1)


def _c01(cfg):
    return P01._cfg(cfg['signed'], cfg['n_word'], cfg['n_frac'], cfg['rounding'], cfg['overflow'], 'pyint', cfg['entry'])


def inputs(cfg):
    if cfg['part'] == 'store':
        m = (1 << MAXBITS) - 1
        return {'v0': dict(kind='int', lo=-m, hi=m)}
    lo, hi = SP.limits(cfg['x'][0], cfg['x'][1])
    lo2, hi2 = SP.limits(cfg['y'][0], cfg['y'][1])
    if cfg['part'] == 'arith_inplace':
        return {'a0': dict(kind='int', lo=lo, hi=hi), 'a1': dict(kind='int', lo=lo, hi=hi), 'b0': dict(kind='int', lo=lo2, hi=hi2)}
    return {'a0': dict(kind='int', lo=lo, hi=hi), 'b0': dict(kind='int', lo=lo2, hi=hi2)}


def run(F, cfg, inp):
    if cfg['part'] == 'store':
        return P01.run(F, _c01(cfg), inp)
    (sx, nx, fx), (sy, ny, fy) = cfg['x'], cfg['y']
    if cfg['part'] == 'arith_inplace':
        fn = P07._PYOP[cfg['op']] if cfg['route'] == 'operator' else getattr(F.pkg, cfg['op'])
        x = C.state_fxp(F, sx, nx, fx, [0, 0], (2,))
        y = C.state_fxp(F, sy, ny, fy, inp['b0'])
        fn(x, y), fn(y, x), fn(x, x)                      # first use: whatever the operation remembers about x is computed for the zeros
        x.val[0] = inp['a0']                              # in-place element writes into the value buffer (what x[i] = v ends in)
        x.val[1] = inp['a1']
        z = fn(x, y)
        return dict(z=C.snap_fxp(z, False), status=P07._st(z), x=O.snap(x.val), y=O.snap(y.val))
    x = C.state_fxp(F, sx, nx, fx, inp['a0'])
    y = C.state_fxp(F, sy, ny, fy, inp['b0'])
    z = P07._PYOP[cfg['op']](x, y) if cfg['route'] == 'operator' else getattr(F.pkg, cfg['op'])(x, y)
    return dict(z=C.snap_fxp(z, False), status=P07._st(z), x=O.snap(x.val), y=O.snap(y.val))


def post(cfg, inp, ob):
    if cfg['part'] == 'store':
        return P01.post(_c01(cfg), inp, ob)
    z = ob['z']
    st = ob['status']
    x, y, op = tuple(cfg['x']), tuple(cfg['y']), cfg['op']
    fm = P07.growth(op, x, y)
    a, b = inp['a0'], inp['b0']
    if cfg['part'] == 'arith_inplace':
        out = [('format_growth_rule', (z['signed'], z['n_word'], z['n_frac']) == fm), ('n_cells', len(O.cells(z['val'])) == 2)]
        for i, code in enumerate(O.cells(z['val'])[:2]):
            ex = P07._exact(op, inp['a%d' % i], x[2], b, y[2], fm[2])
            if op == 'sub' and not fm[0]:
                out.append(('exact_when_nonnegative_%d' % i, SP.IMPLIES(T.icmp(ex, 0, '>='), T.icmp(code, ex, '=='))))
            else:
                out.append(('exact_after_in_place_update_%d' % i, T.icmp(code, ex, '==')))
        return out
    code = O.cells(z['val'])[0]
    out = [('format_growth_rule', (z['signed'], z['n_word'], z['n_frac']) == fm),
           ('operands_unchanged', SP.AND(T.icmp(O.cells(ob['x'])[0], a, '=='), T.icmp(O.cells(ob['y'])[0], b, '==')))]
    ex = P07._exact(op, a, x[2], b, y[2], fm[2])
    if op == 'sub' and not fm[0]:
        nonneg = T.icmp(ex, 0, '>=')
        out.append(('exact_when_nonnegative', SP.IMPLIES(nonneg, T.icmp(code, ex, '=='))))
        out.append(('negative_difference_saturates_to_zero', SP.IMPLIES(SP.NOT(nonneg), T.icmp(code, 0, '=='))))
        out.append(('underflow_iff_negative', SP.IFF(st['underflow'], SP.NOT(nonneg))))
        out.append(('no_overflow_flag', not st['overflow']))
    else:
        out.append(('exact', T.icmp(code, ex, '==')))
        out.append(('no_overflow_or_underflow_flag', not (st['overflow'] or st['underflow'])))
    return out


CANARIES = [
    dict(name='exact-integer cast of the raw operands chosen one power of two too late (int64 used up to 127 bits)',
         mutate={'functions.py': [('    if n_bits >= _n_word_max:\n        return lambda m: np.array(m, dtype=object)',
                                   '    if n_bits >= 2*_n_word_max:\n        return lambda m: np.array(m, dtype=object)')]},
         cfgs=[dict(part='arith', op='mul', x=[True, 40, 0], y=[True, 40, 20], route='operator', shape=[])]),
    dict(name='set_val decides the python-integer regime on the unscaled value only',
         mutate={'objects.py': [('                _val_lim = _val_lim // conv_factor', '                _val_lim = _val_lim')]},
         cfgs=[dict(part='store', signed=True, n_word=8, n_frac=2, rounding='trunc', overflow='saturate', entry='set_val')]),
]
