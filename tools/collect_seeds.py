#!/usr/bin/env python3
"""Assemble /verif/seeded/<id>/ from the sub-agents' deliverables under /tmp/seed/<prop>/seed_out and the seedtest results in scratch/seeds."""
import glob, json, os, re, shutil, sys
V = os.path.dirname(os.path.dirname(os.path.abspath(__file__)))
STRENGTHENED = {
    'C03-B': 'initially missed by C03 (caught by C01): C03 now drives narrow NumPy scalar carriers (int8/16/32, uint8/16, float32) through the congruence part',
    'C07-B': 'initially missed by C07 (saturating configuration only): C07 now runs unsigned - unsigned under overflow=wrap and states the negative difference as the quantised exact difference; C03 catches it as well',
    'C08-B': 'initially missed by C08 (result format asserted for equal signedness only): C08 now asserts the policy format for operands of different signedness too',
    'C02-B': 'initially missed by C02 and C10 (random destination formats rarely differ from the source in the sign only with a wider word): both now include destinations that differ from the source in one or two size fields and a resize call that passes only the changed arguments',
    'C12-A': 'initially a harness error (regular expressions with IGNORECASE were outside the regex model): the matcher now implements IGNORECASE, the check reports the violation',
    'C17-A': 'initially missed by C17 (float carriers only): C17 now stores Python-int carriers with power-of-two scales',
    'C17-B': 'initially missed by C17 (size inference driven with floats only): C17 now infers sizes from Python-int carriers',
    'C15-B': 'initially missed by C15 (main diagonal only): trace and diagonal now run with offsets -1, 0, 1 on square and non-square matrices',
    'C06-B': 'initially missed by C06 (n_int with another size was driven with explicit signedness only): default signedness added',
    'C01-A2': 'round 2; initially missed by C01 (fresh objects only): C01 now also stores into objects with a history (held a value in another format, re-formatted by resize(sizes) / resize(n_word, n_int) / resize(n_frac, n_int) / resize(dtype) / like() / raw write)',
    'C02-A2': 'round 2; initially missed by C02: rarely used size-argument combinations added (resize(n_int) alone, n_int with like=, all four size arguments, dtype with n_int)',
    'C04-A2': 'round 2; initially missed by C04: stickiness is now also checked through operations that are neither a write nor reset() (resize, config change, reads, arithmetic, indexing, copies, like, bitwise, shifts)',
    'C04-B2': 'round 2; initially missed by C04: inaccuracy propagation now also runs with out=, out_like= and config.op_out destinations',
    'C05-A2': 'round 2; initially missed by C05 (caught by C01): C05 contract part now stores the value inside list / tuple / ndarray / float32 carriers too',
    'C05-B2': 'round 2; float16 carriers are outside the arithmetic model: the affected paths are not encoded (exit 2 of C05); C01 reports the violation since un-encoded paths are now probed concretely at several extreme witnesses',
    'C07-A2': 'round 2; initially missed by C07 (caught by C02): operands are now also built as objects with a past, including a sign-only resize (props/common.py AGE)',
    'C07-B2': 'round 2; initially a harness error (the overlay had no dtype views / in-place operators, the real code mutated its operand): both modelled, C07 reports operands_unchanged',
    'C08-B2': 'round 2; initially missed by C08: the out_like template now carries raised flags of its own past',
    'C13-A2': 'round 2; initially a canary failure only: C13 has a history part (operator used, object widened by resize / like=, operator used again)',
    'C16-B2': 'round 2; initially missed by C16: conversions are also taken on derived objects (an element view x[i], a keep-mode shift by 0), and bool() / float() / int() call the methods of the lifted object itself',
    'C03-A2': 'round 2; initially missed by C03: a re-formatting part (wrapping object resized with a sign flip / wider word, three spellings) was added; C10 catches it as well',
    'C06-B2': 'round 2; initially missed by C06: values supplied as fixed-point objects held in a larger-than-minimal, re-formatted format',
    'C09-A2': 'round 2; initially missed by C09 (fresh operands never have an integer value type with fractional bits): integer-born aged operands (AGE route int_born); C16 catches it as well',
    'C09-B2': 'round 2; not caught by C09 (needs a class-level template or like= with sign, n_int and n_frac together, which the division harness never uses); caught by C02 once the requested sizes of the sign+n_int+n_frac combinations are asserted',
    'C11-A2': 'round 2; initially missed by C11 (caught by C20 containers): the same rendered list is now fed twice (value mode, then raw mode)',
    'C12-B2': 'round 2; initially missed by C12: dtype string together with a like= template, and get_dtype asked in both notations in sequence',
    'C17-B2': 'round 2; initially missed by C17: scaled objects derived without a store (element view, flatten, transpose, like=) and then re-formatted',
    'C18-A2': 'round 2; initially missed by C18: the extended-precision indicator is also read on like=, raw like=, element views, templates and deepcopies',
    'C18-B2': 'round 2; not caught by C18 (sharing of configuration/status is not a C18 statement); caught by C20 (xor / or routes added)',
    'C20-A2': 'round 2; initially missed by C20: constructor route with config=<another object\'s Config>',
    'C01-A3': 'round 3; caught by C01 as it stood (float wrap fold: wrap rows with scaled values beyond 2^53)',
    'C01-B3': 'round 3; caught by C01 as it stood (arrays mixing one huge element with ordinary ones)',
    'C02-A3': 'round 3; first a harness error (ndarray.flags / np.copyto were missing from the overlay); not caught by C02 (the ill-formed object is the *parent* of a re-formatted view, which C02 does not look at again); caught by C20 (a view object that is re-formatted must leave its parent unchanged)',
    'C02-B3': 'round 3; missed by C02 (scaled objects are only stored into, not re-formatted without a format change); caught by C17 (raw write / re-format rows of scaled objects)',
    'C03-A3': 'round 3; caught by C03 as it stood',
    'C03-B3': 'round 3; initially missed by C03 (register rows stopped at 26-bit operands): register rows with products of 64..80 bits (constant second factor) and a destination wider than the operands were added; the rows also exposed a genuine defect of the unchanged tree (open finding F-C03-wide-product-coarser-out), whose region (product with more than 53 significant bits) does not cover this change',
    'C04-A3': 'round 3; initially missed by C04: new objects built next to a template (like= / template=) that carries raised flags must report their own write only',
    'C04-B3': 'round 3; first a harness error (np.array_equal missing from the overlay), then missed: C04 now also stores values supplied as fixed-point objects with more fractional bits (set_val, call, setitem, equal)',
    'C05-A3': 'round 3; caught by C05 as it stood (n_frac beyond 52 on the thorough-sampled grid)',
    'C05-B3': 'round 3; initially missed by C05: the idempotence part now also stores the representable value in a new object built next to a reference with raised flags',
    'C06-A3': "round 3; caught by C06 only because the check now reaches the property's stated domain (fractional patterns of 20 bits, if-conversion of the fraction search); it was out of reach for the f0 <= 8 bound of the earlier build",
    'C06-B3': 'round 3; MISSED: needs float32 / float16 array carriers in size inference (C06 drives Python floats, ints and fixed-point objects only); not built in this round',
    'C07-A3': 'round 3; initially missed by C07: AGE route "inplace" (operand used by every operator family, then given its codes by in-place element writes) added to props/common.py',
    'C07-B3': 'round 3; initially missed by C07: AGE route "sticky_flags" (operands whose overflow / underflow flags were raised earlier)',
    'C08-A3': 'round 3; initially missed by C08 (scalar operands only; C04 caught it): C08 now runs element-wise on (2,) arrays, flags are the union over the elements',
    'C08-B3': 'round 3; caught by C08 as it stood (raw and repr methods disagree)',
    'C09-A3': 'round 3; initially missed by C09 (the repr method of x/y was outside the model): correctly rounded float division by a constant is modelled (sx/term.py _fdiv_const) and the repr method is decided for concrete divisor codes, including divisors whose odd part is 49 or more',
    'C09-B3': 'round 3; caught by C09 as it stood',
    'C10-A3': 'round 3; caught by C10 as it stood (exact ties under around)',
    'C10-B3': 'round 3; missed by C10 (sharing shows only after a later indexed write); caught by C20 once equal() / set_val(fxp) were among its derivation routes',
    'C11-A3': 'round 3; initially missed by C11 (C-contiguous operands only): the overlay now models memory layout (order-aware ravel / flatten / copy, layout-preserving element-wise results) and C11 renders the .T of a 2-D object (AGE route transposed)',
    'C11-B3': 'round 3; harness error only (exit 2, paths not encoded: format of a possibly negative integer): hex() of a signed 63-bit word raises OverflowError in the changed tree; no VIOLATION line',
    'C12-A3': 'round 3; initially missed by C12: resize(dtype=...) of an object that already has the requested sizes; the new row also exposed a genuine defect (F-C12-wide-int-valued-resize, fixed)',
    'C12-B3': 'round 3; caught by C12 as it stood',
    'C13-A3': 'round 3; first a harness error (real NumPy scalars such as np.uint64(1 << n) were not accepted as overlay operands); caught by C13 since',
    'C13-B3': 'round 3; harness error only (exit 2: np.nditer is not modelled): bitwise operators on arrays that are not C-contiguous; no VIOLATION line',
    'C14-A3': 'round 3; initially missed by C14 (fresh operands): arrays with the "inplace" history (shifted before, then written element by element); the history warms every operator with zeros',
    'C14-B3': 'round 3; caught by C14 as it stood',
    'C15-A3': 'round 3; initially missed by C15: memory layout modelled in the overlay; flattening reductions (cumprod, cumsum, sum, prod, max, sort) on the .T of a 2-D object',
    'C15-B3': 'round 3; initially missed by C15 (clip bounds were in-range codes, and the quick sample rarely contained an unsigned clip): bounds now reach three ranges beyond the format on either side and an unsigned clip is always run; reported through the concrete probe of the un-encoded path (float -> uint64 cast of a negative bound)',
    'C16-A3': 'round 3; caught by C16 as it stood',
    'C16-B3': 'round 3; caught by C16 as it stood',
    'C17-A3': 'round 3; initially missed by C17 (and a configuration timeout under load): scales 49/8 and 75/8 on formats of at most 8 bits (their reciprocals do not survive a multiplication)',
    'C17-B3': 'round 3; caught by C17 as it stood',
    'C18-A3': 'round 3; caught by C18 (wrap of codes between 1.5 and 2 moduli); the first run hung in a spinning solver pop and was repeated after the explorer learnt to abandon an interrupted scratch solver',
    'C18-B3': 'round 3; initially missed by the quick tier of C18 (raw strings at 64 bits only; the thorough tier has 65 and 66): one signed 65/66-bit string row added to the quick tier',
    'C19-A3': 'round 3; initially missed by C19: a wide operation, an in-place update of the operand, the wide operation again',
    'C19-B3': 'round 3; caught by C19 as it stood',
    'C20-A3': 'round 3; first a harness error (ndarray.flags missing), then missed: a view object that is re-formatted / rewritten as a whole must leave its parent unchanged',
    'C20-B3': "round 3; initially missed by C20: aliasing between the object and the caller's ndarray in both directions (indexed write into the object, later write into the array), raw int64 arrays included",
    'C18-A': 'initially missed by the quick tier of C18 (one randomly chosen signedness for the 64-bit raw-string row): both signednesses are now always run',
}
def main():
    res = {}
    dirs = {}
    for f in sorted(glob.glob(os.path.join(V, 'scratch/seeds/*.json'))):
        m = re.match(r'(C\d+)(r\d+)?_([AB])(\d*)\.json', os.path.basename(f))
        if not m:
            continue
        rnd = m.group(2) or ''
        try:
            d = json.load(open(f))
        except Exception:
            continue
        key = '%s-%s%s' % (m.group(1), m.group(3), rnd[1:] if rnd else '')
        res.setdefault(key, []).append((m.group(4) or '1', d))
        dirs[key] = m.group(1) + rnd
    for key, runs in sorted(res.items()):
        prop, x = key.split('-')
        x = x[0]
        src = '/tmp/seed/%s/seed_out' % dirs[key]
        if not os.path.isdir(src) and os.path.exists(os.path.join(V, 'seeded', key, 'meta.json')):
            continue                         # (already collected; the scratch worktree is gone)
        if not os.path.exists(os.path.join(src, x + '.diff')):
            continue
        runs.sort()
        first, last = runs[0][1], runs[-1][1]
        if not (first.get('applies') and first.get('demo_fails_with_patch') and first.get('demo_passes_without') and first.get('suite_extra_failures') == []):
            print('NOT CONFIRMED', key, {k: first.get(k) for k in ('applies', 'demo_fails_with_patch', 'demo_passes_without', 'suite_extra_failures')})
            continue
        dst = os.path.join(V, 'seeded', key)
        os.makedirs(dst, exist_ok=True)
        shutil.copy(os.path.join(src, x + '.diff'), os.path.join(dst, 'patch.diff'))
        shutil.copy(os.path.join(src, 'demo_%s.py' % x), os.path.join(dst, 'demo.py'))
        notes = open(os.path.join(src, 'notes.md')).read()
        sec = re.split(r'\n##+ ', notes)
        mine = [s for s in sec if re.match(r'\**%s\b' % x, s.strip()) or s.strip().startswith(x + ' ') or s.strip().startswith(x + '.') or s.strip().startswith('Change ' + x)]
        detected = {}
        for _, d in runs:
            for p, v in d['props'].items():
                detected[p] = dict(exit=v['exit'], first_lines=v['lines'][:2])
        meta = dict(id=key, breaks_property=prop, description_by_author=(mine[0].strip()[:2500] if mine else notes[:2500]),
                    confirmed=dict(patch_applies_to_repo_head=True, existing_test_suite_only_known_failures=True,
                                   demo_fails_with_patch=True, demo_passes_on_unchanged_tree=True,
                                   how='tools/seedtest.py: scratch worktree of /repo under /tmp, git apply, pytest suite, demo with PYTHONPATH=<worktree> and with /repo, '
                                       './check <id> quick with SX_REPO=<worktree>; worktree removed afterwards'),
                    checks_run=detected,
                    caught_by=sorted(p for p, v in detected.items() if v['exit'] == 1),
                    first_run_of_own_check_exit=first['props'].get(prop, {}).get('exit'),
                    note=STRENGTHENED.get(key, 'caught by the check of its own property as first built'))
        json.dump(meta, open(os.path.join(dst, 'meta.json'), 'w'), indent=1)
        print(key, 'caught by', meta['caught_by'], '| first own-check exit', meta['first_run_of_own_check_exit'])
if __name__ == '__main__':
    main()
