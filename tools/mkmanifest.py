#!/usr/bin/env python3
"""Regenerate MANIFEST.json from the property modules that exist under props/ (claimed) and the rest (not_applicable)."""
import importlib
import json
import os
import sys

VERIF = os.path.dirname(os.path.dirname(os.path.abspath(__file__)))
sys.path.insert(0, VERIF)

NOT_APPLICABLE = {
    # property id -> reason (only for properties that are not claimed)
}

LEVEL_TEXT = (
    'Bounded symbolic model checking of the implementation itself: the functions of /repo/fxpmath that the property is anchored in are '
    'executed symbolically from the current source (engine SX: lifted source over a solver-backed NumPy overlay), inputs are QF_BV solver '
    'variables, every explored path contributes the verdict query "path condition AND NOT postcondition" to z3; unsat on all paths means the '
    'property holds for every input value inside the stated bounds of every enumerated configuration, sat is replayed on the real fxpmath/NumPy '
    'before it is reported. Not a proof: configurations (formats, modes, carriers, shapes) are enumerated on a grid and value windows are bounded; '
    'both are listed in the evidence.')
NOTE = ('Trusted base: CPython, z3 5.1 (a sample of exported queries is re-decided by cvc5 1.0.3 and z3 4.8.12), the term library and NumPy overlay '
        'under sx/ (validated on every explored path by running the real code on a witness of the path and comparing all observables; '
        'one canary mutation per property must be detected), and the postconditions in props/. Assumptions are listed in each evidence file.')


def main():
    props = [json.loads(l) for l in open(os.path.join(VERIF, 'properties.jsonl'))]
    checks, na = [], []
    for p in props:
        pid = p['id']
        path = os.path.join(VERIF, 'props', pid + '.py')
        if os.path.exists(path) and pid not in NOT_APPLICABLE:
            mod = importlib.import_module('props.' + pid)
            checks.append({
                'property_id': pid,
                'quick_cmd': './check %s quick' % pid,
                'thorough_cmd': './check %s thorough' % pid,
                'evidence_file': 'evidence/%s.json' % pid,
                'replay_cmd_template': './check %s --replay {path}' % pid,
                'engine': 'sx',
                'level_claimed': {'category': 'model_checking', 'text': LEVEL_TEXT + ' ' + getattr(mod, 'LEVEL_EXTRA', ''), 'design_ref': 'DESIGN.md section 6, ' + pid},
                'level_note': NOTE,
                'technique': 'symbolic execution of the real source with SMT (QF_BV) verdict queries per path; counterexamples replayed on the real code',
            })
        else:
            na.append({'property_id': pid, 'reason': NOT_APPLICABLE.get(pid, 'check not built yet (engine and harnesses are landed property by property; see DESIGN.md section 10)')})
    m = {
        'version': 1,
        'setup_cmd': './setup.sh',
        'hooks': {'guard': 'FXPMATH_VERIF', 'enable': 'none needed: the unmodified source of /repo/fxpmath is lifted at every run; no hook commits exist',
                  'baseline_off_cmd': 'cd /repo && /venv/bin/python -m pytest -ra -q -p no:cacheprovider --timeout=900 --continue-on-collection-errors',
                  'source_commits': [], 'add_only': True},
        'engines': [{'name': 'sx', 'path': 'sx/', 'serves_properties': [c['property_id'] for c in checks],
                     'kind_free_text': 'dynamic symbolic executor for the unmodified fxpmath source: interval-typed bit-vector integers, dyadic float64, '
                                       'symbolic strings, NumPy overlay, path exploration by re-execution, z3 QF_BV'}],
        'checks': checks,
        'not_applicable': na,
        'notes': 'Exit codes of ./check: 0 held on everything explored (KNOWN-FINDING lines allowed), 1 replayed violation, 2 harness error. '
                 'SX_REPO=<dir> points the checks at another checkout (used for seeded mutants).',
    }
    json.dump(m, open(os.path.join(VERIF, 'MANIFEST.json'), 'w'), indent=1)
    try:
        import jsonschema
        jsonschema.validate(m, json.load(open('/root/.vp/MANIFEST.schema.json')))
    except ImportError:
        pass
    print('claimed:', [c['property_id'] for c in checks], 'not applicable:', [n['property_id'] for n in na])


if __name__ == '__main__':
    main()
