#!/usr/bin/env python3
"""Confirm a seeded change and run checks against it.

usage: tools/seedtest.py <patch.diff> <demo.py> <property ids...> [--tier quick|thorough] [--no-suite]

1. makes a scratch worktree of /repo under /tmp, applies the patch there;
2. runs the repository's test suite in it (must show only the 3 known failures);
3. runs the demo against the patched tree (must exit non-zero) and against /repo (must exit 0);
4. runs ./check <id> <tier> with SX_REPO pointing at the patched tree for every listed property and reports exit code / VIOLATION lines;
5. removes the worktree.  Prints one JSON summary line at the end."""
import json, os, subprocess, sys, tempfile, shutil, time

VERIF = os.path.dirname(os.path.dirname(os.path.abspath(__file__)))
KNOWN_FAIL = {'test_numpy_ufunc', 'test_issue_77_v0_4_8', 'test_pow'}


def sh(cmd, **kw):
    return subprocess.run(cmd, shell=True, capture_output=True, text=True, **kw)


def main():
    args = [a for a in sys.argv[1:] if not a.startswith('--')]
    tier = 'quick'
    if '--tier' in sys.argv:
        tier = sys.argv[sys.argv.index('--tier') + 1]
        args.remove(tier)
    patch, demo, props = os.path.abspath(args[0]), os.path.abspath(args[1]), args[2:]
    wt = tempfile.mkdtemp(prefix='seedrun_', dir='/tmp')
    os.rmdir(wt)
    out = dict(patch=patch, props={}, tier=tier)
    try:
        r = sh('git -C /repo worktree add -q --detach %s HEAD' % wt)
        assert r.returncode == 0, r.stderr
        r = sh('git -C %s apply %s' % (wt, patch))
        if r.returncode != 0:
            r = sh('git -C %s apply -3 %s' % (wt, patch))
        out['applies'] = r.returncode == 0
        if not out['applies']:
            out['apply_error'] = r.stderr[-400:]
            print(json.dumps(out))
            return 2
        if '--no-suite' not in sys.argv:
            r = sh('cd %s && PYTHONPATH=%s /venv/bin/python -m pytest -q -p no:cacheprovider --timeout=900 -q 2>&1 | grep FAILED' % (wt, wt))
            failed = set(l.split('::')[-1].split(' ')[0] for l in r.stdout.splitlines())
            out['suite_extra_failures'] = sorted(failed - KNOWN_FAIL)
        r1 = sh('PYTHONPATH=%s /venv/bin/python %s' % (wt, demo))
        r0 = sh('PYTHONPATH=/repo /venv/bin/python %s' % demo)
        out['demo_fails_with_patch'] = r1.returncode != 0
        out['demo_passes_without'] = r0.returncode == 0
        out['demo_output'] = (r1.stdout + r1.stderr)[-300:]
        for p in props:
            t = time.time()
            r = sh('cd %s && SX_REPO=%s ./check %s %s' % (VERIF, wt, p, tier))
            lines = [l for l in r.stdout.splitlines() if l.startswith(('VIOLATION', 'HARNESS-ERROR', '  e.g.'))]
            out['props'][p] = dict(exit=r.returncode, lines=[l[:400] for l in lines[:4]], wall=round(time.time() - t, 1))
    finally:
        sh('git -C /repo worktree remove --force %s' % wt)
        shutil.rmtree(wt, ignore_errors=True)
    print(json.dumps(out, indent=1))
    return 0


if __name__ == '__main__':
    sys.exit(main())
