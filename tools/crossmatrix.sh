#!/bin/sh
# cross-detection: every seeded change against a set of cheap checks other than its own; results in scratch/cross/<seed>.json
cd "$(dirname "$0")/.."
mkdir -p scratch/cross
CHECKS="C02 C07 C08 C10 C14 C15 C16 C20"
for d in seeded/*/; do
  id=$(basename $d)
  [ -s scratch/cross/$id.json ] && continue
  tools/seedtest.py $d/patch.diff $d/demo.py $CHECKS --no-suite > scratch/cross/$id.json 2>&1
done
echo done > scratch/cross/done
