#!/bin/sh
# Build the verification environment offline: an overlay venv on top of /venv (which holds
# the repository's own dependencies, NumPy included) plus z3-solver / cvc5 / jsonschema from
# the local wheelhouse.  Idempotent; every ./check invocation calls it when .venv is missing.
set -e
cd "$(dirname "$0")"
V=.venv
if [ -x "$V/bin/python" ] && "$V/bin/python" -c "import z3, numpy" 2>/dev/null; then
    exit 0
fi
rm -rf "$V"
/venv/bin/python -m venv "$V"
SP=$("$V/bin/python" -c "import sysconfig; print(sysconfig.get_paths()['purelib'])")
# make /venv's site-packages (numpy, pytest, ...) visible; the repository itself is *not*
# put on the path here: the checks load it explicitly from $SX_REPO (default /repo).
printf "import site; site.addsitedir('/venv/lib/python3.12/site-packages')\n" > "$SP/_verif_overlay.pth"
PIP_NO_INDEX=1 "$V/bin/python" -m pip install --quiet --no-index --find-links /opt/veriftools/wheels z3-solver cvc5 jsonschema >/dev/null 2>&1 || \
PIP_NO_INDEX=1 "$V/bin/python" -m pip install --no-index --find-links /opt/veriftools/wheels z3-solver cvc5 jsonschema
"$V/bin/python" -c "import z3, numpy; print('verif env ok: z3', z3.get_version_string(), 'numpy', numpy.__version__)"
